"""Implementation side of C02: call the REAL MeshRegion.calcBeta / geometry2-formula / calcMetric on a stub
region holding random point data (no equilibrium needed).  JSON in (stdin) -> '@@JSON ' line out."""
import json
import sys
import types

import numpy

from hypnotoad.core.mesh import MeshRegion
from hypnotoad.core.multilocationarray import MultiLocationArray

LOCS = ("centre", "xlow", "ylow", "corners")


def mla(nx, ny, arrs):
    m = MultiLocationArray(nx, ny)
    m.centre = arrs[0]
    m.xlow = arrs[1]
    m.ylow = arrs[2]
    m.corners = arrs[3]
    return m


def shapes(nx, ny):
    return [(nx, ny), (nx + 1, ny), (nx, ny + 1), (nx + 1, ny + 1)]


def stub_region(nx, ny, orthogonal):
    r = object.__new__(MeshRegion)
    r.nx, r.ny = nx, ny
    r.name = "stub"
    r.user_options = types.SimpleNamespace(
        shiftedmetric=True, orthogonal=orthogonal, geometry_rtol=1.0e-7, curvature_type="curl(b/B)",
        cap_Bp_ylow_xpoint=False)
    r.radialIndex = 0
    r.equilibriumRegion = types.SimpleNamespace(xPointsAtStart=[None, None], xPointsAtEnd=[None, None])
    r.DDX = lambda expr: MultiLocationArray(nx, ny).zero()
    r.calc_curvature = lambda: None
    return r


def run(payload):
    rng = numpy.random.default_rng(payload["seed"])
    nx, ny = payload.get("nx", 6), payload.get("ny", 8)
    out = []
    for orthogonal in (True, False):
        for bps in (1.0, -1.0):
            for rep in range(payload.get("reps", 2)):
                r = stub_region(nx, ny, orthogonal)

                def rnd(lo, hi, sign=False):
                    arrs = []
                    for s in shapes(nx, ny):
                        a = rng.uniform(lo, hi, size=s)
                        if sign:
                            a *= rng.choice([-1.0, 1.0], size=s)
                        arrs.append(a)
                    return arrs

                # first-principles data: displacement dr between radial neighbours, grad psi = (pR,pZ)
                Rxy = rnd(0.3, 4.0)
                ang = rnd(0.0, 2 * numpy.pi)
                modp = rnd(0.05, 5.0)
                pR = [m * numpy.cos(a) for m, a in zip(modp, ang)]
                pZ = [m * numpy.sin(a) for m, a in zip(modp, ang)]
                if orthogonal:
                    skew = [numpy.zeros(s) for s in shapes(nx, ny)]
                else:
                    skew = rnd(-1.2, 1.2)
                drmod = rnd(0.001, 0.1)
                # dr makes angle `skew` with grad psi (sign so that dx = p.dr has the sign of bpsign: x increases outward)
                dR = [bps * d * numpy.cos(a + s) for d, a, s in zip(drmod, ang, skew)]
                dZ = [bps * d * numpy.sin(a + s) for d, a, s in zip(drmod, ang, skew)]
                hy = rnd(0.05, 3.0)
                Bt = rnd(0.1, 3.0, sign=True)
                Bp = [bps * m / R for m, R in zip(modp, Rxy)]
                r.Rxy = mla(nx, ny, Rxy)
                r.Bpxy = mla(nx, ny, Bp)
                r.Btxy = mla(nx, ny, Bt)
                r.hy = mla(nx, ny, hy)
                r.bpsign = bps
                # calcBeta through the real method: it reads Rxy.xlow/corners differences and equilibrium.f_R/f_Z
                if not orthogonal:
                    rb = stub_region(nx, ny, orthogonal)
                    k = 0.37
                    Rb = MultiLocationArray(nx, ny)
                    Zb = MultiLocationArray(nx, ny)
                    # make xlow[1:]-xlow[:-1] == dR(centre), corners[1:]-corners[:-1] == dR(ylow)
                    Rb.xlow = numpy.concatenate([numpy.zeros((1, ny)), numpy.cumsum(dR[0], axis=0)], axis=0)
                    Zb.xlow = numpy.concatenate([numpy.zeros((1, ny)), numpy.cumsum(dZ[0], axis=0)], axis=0)
                    Rb.corners = numpy.concatenate([numpy.zeros((1, ny + 1)), numpy.cumsum(dR[2], axis=0)], axis=0)
                    Zb.corners = numpy.concatenate([numpy.zeros((1, ny + 1)), numpy.cumsum(dZ[2], axis=0)], axis=0)
                    Rb.centre = numpy.zeros((nx, ny))
                    Zb.centre = numpy.zeros((nx, ny))
                    Rb.ylow = numpy.zeros((nx, ny + 1))
                    Zb.ylow = numpy.zeros((nx, ny + 1))
                    lut = {"centre": 0, "ylow": 2}

                    def fR(Ra, Za):
                        return k * (pR[0] if Ra.shape == (nx, ny) else pR[2])

                    def fZ(Ra, Za):
                        return k * (pZ[0] if Ra.shape == (nx, ny) else pZ[2])

                    rb.Rxy, rb.Zxy = Rb, Zb
                    rb.meshParent = types.SimpleNamespace(equilibrium=types.SimpleNamespace(f_R=fR, f_Z=fZ))
                    rb.calcBeta()
                    # differences of cumsums are not bit-identical to dR: recompute the dr actually seen
                    dR[0] = Rb.xlow[1:, :] - Rb.xlow[:-1, :]
                    dZ[0] = Zb.xlow[1:, :] - Zb.xlow[:-1, :]
                    dR[2] = Rb.corners[1:, :] - Rb.corners[:-1, :]
                    dZ[2] = Zb.corners[1:, :] - Zb.corners[:-1, :]
                    cosB = [rb.cosBeta.centre, None, rb.cosBeta.ylow, None]
                    sinB = [rb.sinBeta.centre, None, rb.sinBeta.ylow, None]
                    tanB = [rb.tanBeta.centre, None, rb.tanBeta.ylow, None]
                    r.cosBeta = MultiLocationArray(nx, ny)
                    r.tanBeta = MultiLocationArray(nx, ny)
                    r.cosBeta.centre, r.cosBeta.ylow = cosB[0], cosB[2]
                    r.tanBeta.centre, r.tanBeta.ylow = tanB[0], tanB[2]
                    # xlow / corners of beta are left at their zero default by calcBeta (not used in output)
                    r.cosBeta.xlow = numpy.ones((nx + 1, ny))
                    r.cosBeta.corners = numpy.ones((nx + 1, ny + 1))
                    r.tanBeta.xlow = numpy.zeros((nx + 1, ny))
                    r.tanBeta.corners = numpy.zeros((nx + 1, ny + 1))
                # dphidy through the real geometry2 (calcHy stubbed to return our hy)
                r.calcHy = lambda: r.hy
                r.calcBeta = lambda: None
                r.geometry2()
                r.calcMetric()
                names = ["g11", "g22", "g33", "g12", "g13", "g23", "J", "g_11", "g_22", "g_33", "g_12", "g_13", "g_23"]
                for li, loc in ((0, "centre"), (2, "ylow")):
                    get = lambda m: getattr(m, loc).ravel().tolist()
                    rec = {"orthogonal": orthogonal, "bpsign": bps, "loc": loc,
                           "in": {"Rxy": get(r.Rxy), "Bpxy": get(r.Bpxy), "hy": get(r.hy), "Btxy": get(r.Btxy),
                                  "dphidy": get(r.dphidy),
                                  "cosBeta": get(r.cosBeta) if not orthogonal else [1.0] * len(get(r.hy)),
                                  "tanBeta": get(r.tanBeta) if not orthogonal else [0.0] * len(get(r.hy)),
                                  "dR": dR[li].ravel().tolist(), "dZ": dZ[li].ravel().tolist(),
                                  "pR": pR[li].ravel().tolist(), "pZ": pZ[li].ravel().tolist()},
                           "out": {n: get(getattr(r, n)) for n in names}}
                    if not orthogonal:
                        rec["in"]["sinBeta"] = sinB[li].ravel().tolist()
                    out.append(rec)
    return out


if __name__ == "__main__":
    payload = json.load(sys.stdin)
    res = run(payload)
    print("@@JSON " + json.dumps(res))
