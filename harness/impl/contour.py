"""Implementation side of the PsiContour index-bookkeeping correspondence (C11): random sequences of insert / temporaryExtend(lower, upper) / reverse on a REAL
PsiContour whose points carry integer ids in their R coordinate; the extrapolation, refinement and range test that temporaryExtend calls are replaced on the instance
(they do not take part in the index bookkeeping).  stdin {cases: [{ids, si, ei, ops}]}; stdout @@JSON [[ids, startInd, endInd] | {error}]."""
import json
import os
import sys
import warnings

warnings.filterwarnings("ignore")
from hypnotoad.core.equilibrium import Point2D, PsiContour  # noqa: E402


def run_case(c):
    ct = PsiContour(points=[Point2D(float(i), 0.0) for i in c["ids"]], psival=1.0, settings={}, Rrange=(-1e12, 1e12), Zrange=(-1e12, 1e12))
    ct.startInd, ct.endInd = c["si"], c["ei"]
    nxt = [None]
    ct._coarseExtrapLower = lambda ind: (lambda ds: Point2D(float(nxt[0]), 0.0))
    ct._coarseExtrapUpper = lambda ind: (lambda ds: Point2D(float(nxt[0]), 0.0))
    ct.refinePoint = lambda p, tangent, psi=None, **kw: p
    for op in c["ops"]:
        if op[0] == "insert":
            ct.insert(op[1], Point2D(float(op[2]), 0.0))
        elif op[0] == "lower":
            nxt[0] = op[1]
            ct.temporaryExtend(psi=None, extend_lower=1, ds_lower=1.0)
        elif op[0] == "upper":
            nxt[0] = op[1]
            ct.temporaryExtend(psi=None, extend_upper=1, ds_upper=1.0)
        elif op[0] == "reverse":
            ct.reverse()
    return [[int(round(p.R)) for p in ct.points], int(ct.startInd), int(ct.endInd)]


def main():
    req = json.load(sys.stdin)
    out = []
    for c in req["cases"]:
        try:
            out.append(run_case(c))
        except Exception as e:
            out.append(dict(error=type(e).__name__ + ": " + str(e)[:200]))
    print("@@JSON " + json.dumps(out))
    sys.stdout.flush()
    os._exit(0)


if __name__ == "__main__":
    main()
