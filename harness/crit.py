"""Independent critical-point search on a smooth flux function given by callables grad(R,Z)->(gR,gZ), hess(R,Z)->(hRR,hRZ,hZZ)
(the analytic family, or an own spline of a grid's inputs).  Multi-start Newton with de-duplication."""
import numpy as np


def newton(grad, hess, r, z, its=60, tol=1e-13):
    for _ in range(its):
        gR, gZ = (float(x) for x in grad(r, z))
        a, b, c = (float(x) for x in hess(r, z))
        det = a * c - b * b
        if det == 0 or not np.isfinite(det):
            return None
        dr, dz = -(c * gR - b * gZ) / det, -(-b * gR + a * gZ) / det
        step = np.hypot(dr, dz)
        if step > 0.1:
            dr, dz = dr * 0.1 / step, dz * 0.1 / step
        r, z = r + dr, z + dz
        if step < tol:
            break
    gR, gZ = (float(x) for x in grad(r, z))
    return r, z, np.hypot(gR, gZ)


def find_all(grad, hess, box, n=24, gscale=1.0):
    """all non-degenerate critical points strictly inside box=(rmin,rmax,zmin,zmax): list of (R, Z, kind) kind 'O'|'X'"""
    rmin, rmax, zmin, zmax = box
    found = []
    for r0 in np.linspace(rmin, rmax, n + 2)[1:-1]:
        for z0 in np.linspace(zmin, zmax, n + 2)[1:-1]:
            res = newton(grad, hess, r0, z0)
            if res is None:
                continue
            r, z, g = res
            if not (rmin < r < rmax and zmin < z < zmax) or g > 1e-9 * gscale:
                continue
            if any(np.hypot(r - p[0], z - p[1]) < 1e-6 for p in found):
                continue
            a, b, c = (float(x) for x in hess(r, z))
            found.append((r, z, "O" if a * c - b * b > 0 else "X"))
    return found


def spline_funcs(spl):
    g = lambda r, z: (spl(r, z, dx=1, grid=False), spl(r, z, dy=1, grid=False))
    h = lambda r, z: (spl(r, z, dx=2, grid=False), spl(r, z, dx=1, dy=1, grid=False), spl(r, z, dy=2, grid=False))
    return g, h


def analytic_funcs(family, sign=1.0, scale=1.0):
    import analytic
    return (lambda r, z: analytic.grad(family, r, z, sign, scale)), (lambda r, z: analytic.hess(family, r, z, sign, scale))
