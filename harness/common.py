"""Shared machinery for the per-property checks.

Every check is `./check Cnn --tier quick|thorough`.  A check

  1. regenerates the translated Coq models from /repo's working tree (fail-closed),
  2. builds the dependency cone of coq/props/Cnn.v (full .vo), captures Print Assumptions,
  3. runs the correspondence / translation validation between model and implementation,
  4. runs the direct property oracle on the implementation (also the failing-input search),
  5. writes evidence/Cnn.json and prints VIOLATION / KNOWN-FINDING lines.
"""
import fcntl
import hashlib
import json
import os
import re
import signal
import subprocess
import sys
import time

VERIF = os.path.dirname(os.path.dirname(os.path.abspath(__file__)))
REPO = os.environ.get("VERIF_REPO", "/repo")
COQ = os.path.join(VERIF, "coq")
GEN = os.path.join(COQ, "gen")
CASES = os.path.join(COQ, "cases")
EVID = os.path.join(VERIF, "evidence")
REPLAYS = os.path.join(VERIF, "replays")
CACHE = os.path.join(VERIF, "_cache")
PY = "/venv/bin/python"
NPROC = int(os.environ.get("VERIF_JOBS", "16"))

FORBIDDEN = re.compile(
    r"\b(Admitted|admit|Axiom|Axioms|Parameter|Parameters|Conjecture|Conjectures|"
    r"Admit\s+Obligations|bypass_check|native_compute)\b|Unset\s+Guard|Unset\s+Positivity|"
    r"Unset\s+Universe|type-in-type|impredicative-set"
)


def impl_env(extra=None):
    env = dict(os.environ)
    env["PYTHONPATH"] = REPO + os.pathsep + os.path.join(VERIF, "harness")
    env["PYTHONHASHSEED"] = "0"
    env["BOUTPROJECT_HYPNOTOAD_VERIF"] = "1"
    env["MPLBACKEND"] = "Agg"
    env["OMP_NUM_THREADS"] = "1"
    env["OPENBLAS_NUM_THREADS"] = "1"
    if extra:
        env.update(extra)
    return env


def tree_hash():
    """Hash of the parts of /repo's *working tree* that the checks read."""
    h = hashlib.sha256()
    roots = ["hypnotoad", "examples", "doc/grid-file.rst", "geqdsk_cdn.yaml", "geqdsk_ldn.yaml"]
    for root in roots:
        p = os.path.join(REPO, root)
        if os.path.isfile(p):
            files = [p]
        else:
            files = []
            for d, dn, fn in os.walk(p):
                dn[:] = sorted(x for x in dn if x not in ("__pycache__", "test_suite", "gui"))
                for f in sorted(fn):
                    if f.endswith((".py", ".yaml", ".yml", ".rst")):
                        files.append(os.path.join(d, f))
        for f in files:
            h.update(os.path.relpath(f, REPO).encode())
            with open(f, "rb") as fh:
                h.update(fh.read())
    return h.hexdigest()[:16]


def run_group(cmd, timeout, env=None, cwd=None, stdin=None):
    """Run cmd in its own process group with stdout/stderr going to files (orphaned grandchildren such as
    ParallelMap workers keep pipes open, so pipes would block until they die); wait for the LEADER only,
    then kill the whole group.  Returns (returncode or None on timeout, stdout, stderr)."""
    import tempfile
    os.makedirs(CACHE, exist_ok=True)
    fo = tempfile.TemporaryFile(mode="w+", dir=CACHE)
    fe = tempfile.TemporaryFile(mode="w+", dir=CACHE)
    fi = None
    if stdin is not None:
        fi = tempfile.TemporaryFile(mode="w+", dir=CACHE)
        fi.write(stdin)
        fi.seek(0)
    p = subprocess.Popen(cmd, stdout=fo, stderr=fe, stdin=fi if fi else subprocess.DEVNULL, env=env, cwd=cwd, start_new_session=True)
    try:
        rc = p.wait(timeout=timeout)
    except subprocess.TimeoutExpired:
        rc = None
    finally:
        try:
            os.killpg(p.pid, signal.SIGKILL)
        except (ProcessLookupError, PermissionError):
            pass
        try:
            p.wait(timeout=10)
        except Exception:
            pass
    fo.seek(0)
    fe.seek(0)
    out, err = fo.read(), fe.read()
    for f in (fo, fe, fi):
        if f:
            f.close()
    return rc, out, err


def run_impl(script, args=(), timeout=600, extra_env=None, stdin=None):
    """Run a harness script with the implementation importable from /repo."""
    path = script if os.path.isabs(script) else os.path.join(VERIF, "harness", script)
    return run_group([PY, path, *map(str, args)], timeout, env=impl_env(extra_env), cwd=VERIF, stdin=stdin)


def run_impl_json(script, payload, timeout=600, extra_env=None):
    """Run an implementation-side script, JSON in on stdin, JSON out on the LAST stdout line
    that starts with '@@JSON '.  Other output (the code prints a lot) is ignored."""
    rc, out, err = run_impl(script, (), timeout, extra_env, stdin=json.dumps(payload))
    res = None
    for line in out.splitlines():
        if line.startswith("@@JSON "):
            res = json.loads(line[7:])
    return rc, res, out, err


def write_if_changed(path, text):
    os.makedirs(os.path.dirname(path), exist_ok=True)
    try:
        with open(path) as f:
            if f.read() == text:
                return False
    except FileNotFoundError:
        pass
    with open(path, "w") as f:
        f.write(text)
    return True


class CoqLock:
    def __enter__(self):
        os.makedirs(COQ, exist_ok=True)
        self.f = open(os.path.join(COQ, ".lock"), "w")
        fcntl.flock(self.f, fcntl.LOCK_EX)
        return self

    def __exit__(self, *a):
        fcntl.flock(self.f, fcntl.LOCK_UN)
        self.f.close()


def coq_project_files():
    files = []
    for sub in ("theories", "gen", "props"):
        d = os.path.join(COQ, sub)
        if os.path.isdir(d):
            for f in sorted(os.listdir(d)):
                if f.endswith(".v"):
                    files.append(f"{sub}/{f}")
    return files


def coq_makefile():
    files = coq_project_files()
    text = "-Q theories HT\n-Q gen HG\n-Q props HP\n-arg -w -arg -all\n" + "\n".join(files) + "\n"
    changed = write_if_changed(os.path.join(COQ, "_CoqProject"), text)
    if changed or not os.path.exists(os.path.join(COQ, "Makefile")):
        subprocess.run(["coq_makefile", "-f", "_CoqProject", "-o", "Makefile"], cwd=COQ, check=True,
                       stdout=subprocess.DEVNULL, stderr=subprocess.DEVNULL)


def coq_cone(vfile):
    """Files under coq/ in the dependency cone of vfile (relative paths), via coqdep."""
    r = subprocess.run(["coqdep", "-f", "_CoqProject"], cwd=COQ, capture_output=True, text=True)
    deps = {}
    for line in r.stdout.splitlines():
        if ":" not in line:
            continue
        lhs, rhs = line.split(":", 1)
        tgt = [t for t in lhs.split() if t.endswith(".vo")]
        if not tgt:
            continue
        src = tgt[0][:-1]
        deps[src] = [d[:-1] for d in rhs.split() if d.endswith(".vo") and not d.startswith("/")]
    seen, todo = [], [vfile]
    while todo:
        f = todo.pop()
        if f in seen:
            continue
        seen.append(f)
        todo.extend(deps.get(f, []))
    return sorted(seen)


OBL_RE = re.compile(r"^\s*(?:Local\s+|Global\s+|#\[[^\]]*\]\s*)*(Lemma|Theorem|Corollary|Example|Fact|Remark|Proposition)\s+([A-Za-z0-9_']+)", re.M)


def count_obligations(files):
    names = []
    for f in files:
        with open(os.path.join(COQ, f)) as fh:
            src = strip_coq_comments(fh.read())
        names += [f"{f}:{m.group(2)}" for m in OBL_RE.finditer(src)]
    return names


def strip_coq_comments(src):
    out, depth, i = [], 0, 0
    while i < len(src):
        if src.startswith("(*", i):
            depth += 1
            i += 2
        elif src.startswith("*)", i) and depth:
            depth -= 1
            i += 2
        else:
            if not depth:
                out.append(src[i])
            i += 1
    return "".join(out)


def forbidden_scan(files):
    hits = []
    for f in files:
        with open(os.path.join(COQ, f)) as fh:
            src = strip_coq_comments(fh.read())
        for m in FORBIDDEN.finditer(src):
            hits.append(f"{f}: {m.group(0)}")
        # Variable/Hypothesis outside a section
        depth = 0
        for line in src.splitlines():
            s = line.strip()
            if re.match(r"Section\s+\w+", s):
                depth += 1
            elif depth and re.match(r"End\s+\w+", s):
                depth -= 1
            elif depth == 0 and re.match(r"(Variable|Variables|Hypothesis|Hypotheses|Context)\b", s):
                hits.append(f"{f}: section-less {s[:40]}")
    return hits


def coq_build(prop_file, timeout=1500):
    """Build props/<prop>.vo and its cone.  Returns dict(ok, log, failed, assumptions, cone,
    obligations, discharged, forbidden)."""
    t0 = time.time()
    with CoqLock():
        coq_makefile()
        cone = coq_cone(prop_file)
        target = prop_file + "o"
        # always recompile the property file itself so that Print Assumptions output is fresh
        for ext in ("o", "ok", "os", "glob"):
            try:
                os.remove(os.path.join(COQ, prop_file[:-1] + ext if ext == "glob" else prop_file + ext))
            except FileNotFoundError:
                pass
        rc, out, err = run_group(["make", "-j", str(NPROC), "-k", target], timeout, cwd=COQ)
    log = out + "\n" + err
    failed = []
    for m in re.finditer(r'File "\./([^"]+)", line (\d+), characters[^\n]*\n(Error[^\n]*(?:\n[^\n]+){0,6})', log):
        failed.append({"file": m.group(1), "line": int(m.group(2)), "error": m.group(3)[:600]})
    if rc is None:
        failed.append({"file": prop_file, "line": 0, "error": "coq build timed out"})
    obligations = count_obligations(cone)
    compiled = [f for f in cone if os.path.exists(os.path.join(COQ, f + "o"))]
    discharged = count_obligations(compiled)
    forb = forbidden_scan(cone)
    assumptions = parse_assumptions(out)
    ok = rc == 0 and not forb and len(compiled) == len(cone)
    return dict(ok=ok, rc=rc, log=log[-6000:], failed=failed, assumptions=assumptions, cone=cone,
                obligations=obligations, discharged=discharged, forbidden=forb, wall=time.time() - t0)


def parse_assumptions(out):
    """Collect axiom names printed by Print Assumptions."""
    axioms = set()
    closed = 0
    blocks = re.split(r"(?=Axioms:|Closed under the global context)", out)
    for b in blocks:
        if b.startswith("Closed under"):
            closed += 1
        elif b.startswith("Axioms:"):
            for m in re.finditer(r"^([A-Za-z_][\w.']*)\s*:", b[7:], re.M):
                axioms.add(m.group(1))
    return {"axioms": sorted(axioms), "closed_theorems": closed}


def load_known_findings():
    p = os.path.join(VERIF, "known_findings.json")
    if not os.path.exists(p):
        return {"findings": [], "fixed": []}
    with open(p) as f:
        return json.load(f)


class Check:
    """Accumulates results for one run of one property check."""

    def __init__(self, prop, tier, seed, level="proof"):
        self.prop, self.tier, self.seed, self.level = prop, tier, seed, level
        self.t0 = time.time()
        self.cov = {"samples": [], "trusted_base": [], "obligations": 0, "discharged": 0,
                    "checker_cmd": "", "evaluations": 0, "distinct_nontrivial": 0}
        self.assumptions = []
        self.broken = []       # proof obligations / ties that no longer check
        self.failing = []      # concrete failing inputs on the implementation
        self.known = load_known_findings()
        self.notes = {}

    # ---- recording
    def sample(self, s):
        if len(self.cov["samples"]) < 12:
            self.cov["samples"].append(s)

    def count(self, evaluations=0, distinct=0):
        self.cov["evaluations"] += int(evaluations)
        self.cov["distinct_nontrivial"] += int(distinct)

    def trust(self, *items):
        for i in items:
            if i not in self.cov["trusted_base"]:
                self.cov["trusted_base"].append(i)

    def assume(self, *items):
        for i in items:
            if i not in self.assumptions:
                self.assumptions.append(i)

    def tie_broken(self, name, detail):
        self.broken.append({"kind": "tie", "name": name, "detail": str(detail)[:2000]})

    def proof_broken(self, name, detail):
        self.broken.append({"kind": "proof", "name": name, "detail": str(detail)[:2000]})

    def fail(self, key, what, replay):
        """A concrete input on which the implementation violates the property.
        key identifies the defect (matched against known_findings.json)."""
        self.failing.append({"key": key, "what": what, "replay": replay})

    # ---- coq
    def coq(self, prop_file=None):
        prop_file = prop_file or f"props/{self.prop}.v"
        r = coq_build(prop_file)
        self.cov["obligations"] += len(r["obligations"])
        self.cov["discharged"] += len(r["discharged"]) if r["ok"] else min(len(r["discharged"]), max(0, len(r["obligations"]) - 1))
        self.cov["checker_cmd"] = f"cd coq && coq_makefile -f _CoqProject -o Makefile && make -j{NPROC} {prop_file}o  (coqc 8.16.1, full .vo)"
        self.cov["coq_files"] = r["cone"]
        self.cov["print_assumptions"] = r["assumptions"]
        self.cov["coq_wall_s"] = round(r["wall"], 1)
        self.trust("Coq 8.16.1 kernel (coqc, vm_compute for evaluation; no native_compute)")
        if r["assumptions"]["axioms"]:
            self.trust("axioms reported by Print Assumptions: " + ", ".join(r["assumptions"]["axioms"]))
        else:
            self.trust("Print Assumptions: closed under the global context (no axioms)")
        if r["forbidden"]:
            self.proof_broken("forbidden-construct", r["forbidden"])
        if not r["ok"]:
            for f in r["failed"] or [{"file": prop_file, "line": 0, "error": r["log"][-1500:]}]:
                self.proof_broken(f"{f['file']}:{f['line']}", f["error"])
        for s in r["obligations"][:4]:
            self.sample({"obligation": s})
        return r

    # ---- finish
    def finish(self):
        os.makedirs(EVID, exist_ok=True)
        os.makedirs(REPLAYS, exist_ok=True)
        for f in os.listdir(REPLAYS):
            if f.startswith(self.prop + "-"):
                os.remove(os.path.join(REPLAYS, f))
        lines, nviol = [], 0
        cm = sys.modules.get("corpus")
        for name, err in sorted(getattr(cm, "FAILED", {}).items()) if cm is not None else []:
            self.tie_broken(f"corpus:{name}", f"corpus member {name} no longer generates (it does on the pinned tree), so the property cannot be checked on it: {err}")
        known = [k for k in self.known.get("findings", []) if k["property"] == self.prop]
        reported_known = set()
        unknown = []
        for f in self.failing:
            match = next((k for k in known if k["key"] == f["key"]), None)
            if match:
                if f["key"] not in reported_known:
                    reported_known.add(f["key"])
                    lines.append(f"KNOWN-FINDING: property={self.prop} {match['what']}")
            else:
                unknown.append(f)
        # a broken proof/tie that is explained by a known finding is not re-reported; any other is.
        broken = list(self.broken)
        if unknown:
            byk = {}
            for f in unknown:
                byk.setdefault(f["key"], []).append(f)
            for key, fs in byk.items():
                nviol += 1
                path = os.path.join(REPLAYS, f"{self.prop}-{hashlib.sha1(key.encode()).hexdigest()[:10]}.json")
                with open(path, "w") as fh:
                    json.dump({"property": self.prop, "key": key, "what": fs[0]["what"], "failing_inputs": [x["replay"] for x in fs[:5]],
                               "broken_obligations": self.broken, "tree": tree_hash()}, fh, indent=1, default=str)
                lines.append(f"VIOLATION property={self.prop} replay={path}")
        elif broken:
            nviol += 1
            path = os.path.join(REPLAYS, f"{self.prop}-unproved-{hashlib.sha1(json.dumps(broken, sort_keys=True, default=str).encode()).hexdigest()[:10]}.json")
            with open(path, "w") as fh:
                json.dump({"property": self.prop, "no_longer_checks": broken, "failing_input": None, "tree": tree_hash(),
                           "note": "a proof obligation or model/implementation tie broke and the failing-input search found no input on which the implementation violates the property"},
                          fh, indent=1, default=str)
            lines.append(f"VIOLATION property={self.prop} replay={path} no-failing-input-found")
        cov = self.cov
        cov["known_findings_seen"] = sorted(reported_known)
        cov["broken"] = self.broken
        cov.update(self.notes)
        if not cov["samples"]:
            cov["samples"] = [{"note": "no samples recorded"}]
        ev = {"property_id": self.prop, "tier": self.tier, "seed": self.seed, "level": self.level,
              "coverage": cov, "assumptions": self.assumptions, "wall_s": round(time.time() - self.t0, 2),
              "violations": nviol, "tree_hash": tree_hash()}
        with open(os.path.join(EVID, f"{self.prop}.json"), "w") as fh:
            json.dump(ev, fh, indent=1, default=str)
        for l in lines:
            print(l)
        sys.stdout.flush()
        return 1 if nviol else 0


# ---------------- float helpers shared by translation validation -----------------
def fhex(x):
    """Coq PrimFloat literal for a Python float."""
    x = float(x)
    if x != x:
        return "nan"
    if x in (float("inf"), float("-inf")):
        return "infinity" if x > 0 else "neg_infinity"
    s = x.hex()
    if s.startswith("-"):
        return f"(-{s[1:]})"
    return f"({s})"


def coq_eval(name, text, timeout=900):
    """Compile a generated cases file coq/cases/<name>.v; return (rc, stdout, stderr)."""
    os.makedirs(CASES, exist_ok=True)
    path = os.path.join(CASES, name + ".v")
    with open(path, "w") as f:
        f.write(text)
    rc, out, err = run_group(["coqc", "-Q", "theories", "HT", "-Q", "gen", "HG", "-Q", "props", "HP", "-Q", "cases", "HC", "-w", "-all", path], timeout, cwd=COQ)
    return rc, out, err
