"""Analytic flux functions (sums of Gaussians, as examples/tokamak/tokamak_example.py) with exact gradients."""
import numpy as np

R0, Z0, W = 1.5, 0.3, 0.3

# (sign, zc) lists: psi = sum_k sign * exp(-((R-R0)^2 + (Z-zc)^2)/W^2)
FAMILIES = {
    "lsn": [(1, 0.0), (1, -0.6)],
    "usn": [(1, 0.0), (1, 0.6)],
    "cdn": [(1, 0.0), (1, -0.6), (1, 0.6)],
    "udn": [(1, 0.0), (1, -0.602), (1, 0.6)],
    "ldn": [(-1, 0.0), (-1, -0.6), (-1, 0.603)],
    "udn2": [(1, 0.0), (1, -0.62), (1, 0.6)],
    # mirror images (Z -> -Z) of the disconnected ones
    "udn_m": [(1, 0.0), (1, 0.602), (1, -0.6)],
    "udn2_m": [(1, 0.0), (1, 0.62), (1, -0.6)],
    # connected double null whose X-points sit on slightly different flux surfaces
    "cdn_pert": [(1, 0.0), (1, -0.6), (1, 0.6005)],
    # ... and its mirror image: there the UPPER X-point is the primary one
    "cdn_pert_m": [(1, 0.0), (1, -0.6005), (1, 0.6)],
}


def psi(family, R, Z, sign=1.0, scale=1.0):
    R = np.asarray(R, dtype=float)
    Z = np.asarray(Z, dtype=float)
    out = 0.0
    for s, zc in FAMILIES[family]:
        out = out + s * np.exp(-((R - R0) ** 2 + (Z - zc) ** 2) / W**2)
    return sign * scale * out


def grad(family, R, Z, sign=1.0, scale=1.0):
    R = np.asarray(R, dtype=float)
    Z = np.asarray(Z, dtype=float)
    gR = 0.0
    gZ = 0.0
    for s, zc in FAMILIES[family]:
        e = s * np.exp(-((R - R0) ** 2 + (Z - zc) ** 2) / W**2)
        gR = gR + e * (-2 * (R - R0) / W**2)
        gZ = gZ + e * (-2 * (Z - zc) / W**2)
    return sign * scale * gR, sign * scale * gZ


def hess(family, R, Z, sign=1.0, scale=1.0):
    R = np.asarray(R, dtype=float)
    Z = np.asarray(Z, dtype=float)
    hRR = hRZ = hZZ = 0.0
    for s, zc in FAMILIES[family]:
        e = s * np.exp(-((R - R0) ** 2 + (Z - zc) ** 2) / W**2)
        a = -2 * (R - R0) / W**2
        b = -2 * (Z - zc) / W**2
        hRR = hRR + e * (a * a - 2 / W**2)
        hRZ = hRZ + e * a * b
        hZZ = hZZ + e * (b * b - 2 / W**2)
    return sign * scale * hRR, sign * scale * hRZ, sign * scale * hZZ
