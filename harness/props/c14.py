"""C14 -- deterministic, side-effect free, and reproducible from embedded inputs."""
import json
import os
import pickle
import shutil
import tempfile
from concurrent.futures import ThreadPoolExecutor

import numpy as np

import common
import corpus
from common import REPO, GEN
from corpus import tok, SN, DN, nonorth

import pyir
import options as tro

LEVEL = "proof"


def translate(chk):
    try:
        text, d = tro.emit(REPO)
    except (pyir.TranslationError, SyntaxError, OSError) as e:
        chk.tie_broken("translate/options.py", f"translator refused the source: {e}")
        return None
    common.write_if_changed(os.path.join(GEN, "Gen_Options.v"), text)
    return d


def impl(mode, payload, timeout=1800):
    rc, out, err = common.run_impl("impl/provenance.py", (mode,), timeout, None, stdin=json.dumps(payload))
    res = None
    for line in out.splitlines():
        if line.startswith("@@JSON "):
            res = json.loads(line[7:])
    return rc, res, (out + err)[-1500:]


SMALL = dict(psinorm_core=0.8, psinorm_sol=1.2, psinorm_pf=0.9, ny_inner_divertor=4, ny_sol=8, ny_outer_divertor=4, nx_core=3, nx_sol=3,
             target_all_poloidal_spacing_length=0.3, xpoint_poloidal_spacing_length=0.05, y_boundary_guards=1, number_of_processors=1, finecontour_Nfine=100, refine_timeout=60.0)


def roundtrip_variants(tier):
    V = [("plain", "lsn", 1.0, dict(SMALL), None),
         ("sign-options", "lsn", 1.0, dict(SMALL, reverse_current=True, psi_divide_twopi=True, reverse_Bt=True), None),
         # options given as expressions / left to defaults that are expressions of other options
         # an option explicitly set to None although its default is an expression of another option
         ("explicit-none", "lsn", 1.0, dict(SMALL, target_outer_lower_poloidal_spacing_length=None), None),
         # the same, but the FIRST grid comes from the Python API / GUI path (options dict in memory), and is then regenerated from its embedded inputs through the command line
         ("api:explicit-none", "lsn", 1.0, dict(SMALL, target_outer_lower_poloidal_spacing_length=None, nx_sol=4), None),
         ("defaults-that-are-expressions", "lsn", -1.0, {k: v for k, v in SMALL.items() if k not in ("psinorm_pf", "nx_sol", "xpoint_poloidal_spacing_length")}, None)]
    if tier == "thorough":
        no = {k: v for k, v in SMALL.items() if k not in ("target_all_poloidal_spacing_length", "xpoint_poloidal_spacing_length")}
        no.update(orthogonal=False, y_boundary_guards=0)
        V += [("nonorthogonal", "lsn", 1.0, no, None), ("double-null", "cdn", 1.0, dict({k: v for k, v in corpus.CDN.items()}, y_boundary_guards=1, nx_core=3, nx_sol=3), None)]
    return V


def run(chk):
    translate(chk)
    chk.trust("translate/options.py (which parameter arrays the constructor updates in place)",
              "hand model theories/Proof_SideEffects.v of numpy's in-place semantics (augmented assignment on an array parameter writes to the caller's object), tied by running the real constructor "
              "on caller-owned arrays",
              "PARTIAL: bit-for-bit determinism of the numerical pipeline (SciPy/FITPACK, ODE integration, netCDF, multiprocessing) across runs and processes is runtime behaviour no model here can "
              "exhibit; it is observed by generating the same grid twice in separate processes, again from the recreated inputs, and in one interpreter after other builds")
    chk.assume("YAML dump / safe_load of the option dictionary is exercised end to end, not modelled")
    chk.coq()
    n = 0
    # ---- side effects and repeated construction from the same arrays
    cases = []
    for fam in ("lsn", "cdn"):
        for sgn in (1.0, -1.0):
            for opts in (dict(), dict(reverse_current=True), dict(psi_divide_twopi=True), dict(reverse_Bt=True), dict(reverse_current=True, psi_divide_twopi=True, reverse_Bt=True),
                         dict(extrapolate_profiles=True, psi_sol=None)):
                o = dict(opts)
                if "psi_sol" in o:
                    continue
                cases.append(dict(family=fam, sign=sgn, options=o))
    cases.append(dict(family="lsn", sign=1.0, options={}, wall_clockwise_test=True))
    for sgn in (1.0, -1.0):
        cases.append(dict(family="lsn", sign=sgn, options={}, extrapolate=True))
    rc, res, log = impl("sideeffects", dict(cases=cases), 900)
    if res is None:
        chk.tie_broken("impl/provenance.py:sideeffects", f"rc={rc}: {log}")
    else:
        for c, r in zip(cases, res):
            key = ("+".join(sorted(c["options"])) or "plain") + (":extrapolate_profiles" if c.get("extrapolate") else "")
            n += 3
            if r.get("settings_changed"):
                chk.fail("caller-settings-modified:equilibrium", "building a TokamakEquilibrium modifies the caller's settings dictionary", {"family": c["family"], "options": c["options"], "keys": r["settings_changed"][:10]})
            if r["changed"]:
                chk.fail(f"caller-arrays-modified:{key}", "building a TokamakEquilibrium modifies the caller's input arrays", {"family": c["family"], "sign": c["sign"], "options": c["options"], "max_change": r["changed"]})
            if r.get("wall_changed"):
                chk.fail("caller-wall-modified", "building a TokamakEquilibrium modifies the caller's wall list", {"family": c["family"], "options": c["options"]})
            b = r["builds"]
            if any("error" in x for x in b):
                if not all("error" in x for x in b):
                    chk.fail(f"rebuild-differs:{key}", "a construction from the same arrays succeeds or fails depending on earlier constructions", {"family": c["family"], "sign": c["sign"], "options": c["options"], "builds": b})
                continue
            for k in b[0]:
                vals = [x[k] for x in b]
                if max(vals) - min(vals) > 0:
                    chk.fail(f"rebuild-differs:{key}", "a second construction from the same arrays gives a different equilibrium (dependence on the earlier build)",
                             {"family": c["family"], "sign": c["sign"], "options": c["options"], "quantity": k, "values_of_three_builds": vals})
                    break
    # ---- provenance round trip through the command-line entry points
    V = roundtrip_variants(chk.tier)
    tmp = tempfile.mkdtemp(prefix="c14_")

    def rt(v):
        name, fam, sgn, opts, raw = v
        return impl("roundtrip", dict(family=fam, sign=sgn, options=opts, raw_yaml=raw, workdir=os.path.join(tmp, name.replace(":", "_")), first_via_api=name.startswith("api:")), 2400)
    with ThreadPoolExecutor(max_workers=min(len(V), 6)) as ex:
        R = list(ex.map(rt, V))
    allowed_text = {"hypnotoad_inputs", "Python_version", "module_versions"}
    allowed_attrs = {"grid_id", "hypnotoad_version", "hypnotoad_git_hash", "hypnotoad_git_diff", "hypnotoad_geqdsk_filename"}
    need_vars = ["hypnotoad_inputs_yaml", "hypnotoad_input_geqdsk_file_contents", "hypnotoad_inputs", "Python_version", "module_versions"]
    summary = {}
    for (name, fam, sgn, opts, raw), (rc, r, log) in zip(V, R):
        if r is None:
            chk.tie_broken("impl/provenance.py:roundtrip", f"{name}: rc={rc}: {log}")
            continue
        rp = {"variant": name, "family": fam, "sign": sgn, "options": opts, "raw_yaml": raw}
        bad_steps = [s for s in r["steps"] if s["rc"] != 0]
        summary[name] = {"steps": [s["step"] + ":" + str(s["rc"]) for s in r["steps"]]}
        n += len(r["steps"])
        if any(s["step"].startswith("generate:A") for s in bad_steps):
            chk.fail(f"roundtrip:{name}:generation-failed", "the command-line entry point refuses a supported input", dict(rp, steps=bad_steps))
            continue
        for v in need_vars:
            if v not in r.get("variables", []):
                chk.fail(f"provenance-missing:{v}", "the grid file lacks a provenance variable", dict(rp, variables=r.get("variables")))
        if "grid_id" not in r.get("attrs", []):
            chk.fail("provenance-missing:grid_id", "the grid file has no grid_id", rp)
        if any(s["step"] == "recreate-inputs" for s in bad_steps):
            chk.fail(f"roundtrip:{name}:recreate-failed", "hypnotoad-recreate-inputs fails on a grid file written by hypnotoad-geqdsk", dict(rp, steps=bad_steps))
            continue
        if not r.get("gfile_bytes_equal"):
            chk.fail("embedded-geqdsk-not-byte-exact", "the geqdsk text embedded in the grid file is not the byte-exact input file", rp)
        if not r.get("yaml_loadable"):
            chk.fail(f"embedded-yaml-not-loadable:{name}", "the option set embedded in the grid file is not loadable YAML", dict(rp, error=r.get("yaml_error"), head=r.get("yaml_head")))
            continue
        if r.get("yaml_missing_given") or r.get("yaml_missing_options"):
            chk.fail("embedded-yaml-incomplete", "the option set embedded in the grid file is not complete (options given by the user, or options of the three option factories, are missing)",
                     dict(rp, missing_given=r.get("yaml_missing_given"), missing_options=r.get("yaml_missing_options")))
        if any(s["step"] == "generate:from-recreated" for s in bad_steps):
            chk.fail(f"roundtrip:{name}:regeneration-failed", "feeding the embedded option set and geqdsk text back through hypnotoad-geqdsk fails", dict(rp, steps=bad_steps))
            continue
        for tag, what in (("A2", "generating twice from the same inputs (two processes)"), ("R", "regenerating from the inputs embedded in the grid file")):
            d = r.get(f"diff:{tag}")
            if d is None:
                chk.tie_broken("roundtrip:compare", f"{name}: no comparison for {tag}")
                continue
            n += len(r["variables"])
            summary[name][tag] = {"numeric_differences": len(d["numeric"]), "text": d["text"], "attrs": d["attrs"]}
            if d["numeric"]:
                k = sorted(d["numeric"])[0]
                chk.fail(f"not-reproducible:{tag}:{name}", f"{what} gives different arrays", dict(rp, first_variable=k, difference=d["numeric"][k], n_variables_differing=len(d["numeric"])))
            extra_t = [t for t in d["text"] if t not in allowed_text]
            extra_a = [a for a in d["attrs"] if a not in allowed_attrs]
            if extra_t or extra_a or d["extra"]:
                chk.fail(f"provenance-differs:{tag}", f"{what} changes more than grid_id / version strings", dict(rp, text_variables=extra_t, attributes=extra_a, extra=d["extra"]))
            if tag == "A2" and "grid_id" not in d["attrs"]:
                chk.fail("grid_id-not-unique", "two generated grid files carry the same grid_id", rp)
    shutil.rmtree(tmp, ignore_errors=True)
    # ---- no dependence on earlier builds in the same interpreter: X, Y, X
    tmp = tempfile.mkdtemp(prefix="c14h_")
    cfgX, cfgY = tok("c14_X", "lsn", SMALL), tok("c14_Y", "cdn", dict(corpus.CDN, nx_core=3, nx_sol=3, y_boundary_guards=1), sign=-1.0)
    cfgZ = tok("c14_Z", "lsn", dict(SMALL, reverse_current=True))
    path = os.path.join(tmp, "h.pkl")
    # W leaves the spacing lengths to their defaults (which are expressions of other options, evaluated per build) on a non-orthogonal grid: it is built FIRST, in a
    # fresh interpreter, and again LAST, after builds that set those options
    no = {k: v for k, v in SMALL.items() if k not in ("target_all_poloidal_spacing_length", "xpoint_poloidal_spacing_length")}
    # (target_all_poloidal_spacing_length explicitly None: for a non-orthogonal grid its default would be 1.0; with None the non-orthogonal target
    # spacing falls back to ITS default, which the Equilibrium constructor sets per build)
    cfgW = tok("c14_W", "lsn", dict(no, orthogonal=False, y_boundary_guards=0, target_all_poloidal_spacing_length=None))
    rc, r, log = impl("history", dict(cfgs=[cfgW, cfgX, cfgY, cfgZ, cfgX, cfgW], out=path), 2400)
    if r is None or not os.path.exists(path):
        chk.tie_broken("impl/provenance.py:history", f"rc={rc}: {log}")
    else:
        with open(path, "rb") as f:
            H = pickle.load(f)
        seq = ["W: lsn non-orthogonal, spacing lengths left to their defaults", "X: lsn", "Y: cdn (psi reversed)", "Z: lsn with reverse_current", "X", "W"]
        for i, h in enumerate(H):
            if h.get("__settings_dict_changed__"):
                chk.fail("caller-settings-modified:mesh", "building a BoutMesh modifies the settings dictionary it was given (a later build from the same dictionary then sees options the caller never set)",
                         {"build": seq[i], "keys_added_or_changed": h["__settings_dict_changed__"][:12], "number": len(h["__settings_dict_changed__"])})
                break
        for (i0, i1, nm) in ((1, 4, "X"), (0, 5, "W")):
            o0, o1 = H[i0].get("__options__", {}), H[i1].get("__options__", {})
            od = {k: (o0.get(k), o1.get(k)) for k in sorted(set(o0) | set(o1)) if o0.get(k) != o1.get(k)}
            n += len(o0)
            if od:
                chk.fail("history-dependence:evaluated-options", "the evaluated option set of the same build differs when it is repeated in one interpreter after other builds",
                         {"sequence": seq, "build": nm, "options_first_vs_repeated": dict(list(od.items())[:8]), "number_differing": len(od)})
            for k, v in H[i0].items():
                if k.startswith("__"):
                    continue
                bad = False
                for loc, a in v.items():
                    b = H[i1][k][loc]
                    n += a.size
                    if not np.array_equal(a, b, equal_nan=True):
                        chk.fail("history-dependence", "the same grid built again in one interpreter after other builds differs", {"sequence": seq, "build": nm, "field": k, "loc": loc, "max_difference": float(np.nanmax(np.abs(a - b)))})
                        bad = True
                        break
                if bad:
                    break
    # ---- the entry point read_geqdsk on NAMED files within one interpreter: one path re-used for different contents, one file read twice; the reference is
    # the same sequence with a fresh name per step (and, for the first step, a fresh interpreter)
    seq = [("a.geqdsk", "lsn", 1.0), ("a.geqdsk", "cdn", -1.0), ("b.geqdsk", "lsn", 1.0), ("a.geqdsk", "cdn", -1.0)]
    mk = lambda names: [dict(file=nm, family=fam, sign=sg, settings=dict(number_of_processors=1)) for nm, (_, fam, sg) in zip(names, seq)]
    rc1, same, log1 = impl("filehistory", dict(workdir=os.path.join(tmp, "fh1"), steps=mk([x[0] for x in seq])), 900)
    rc2, uniq, log2 = impl("filehistory", dict(workdir=os.path.join(tmp, "fh2"), steps=mk([f"u{i}.geqdsk" for i in range(len(seq))])), 900)
    if not same or not uniq or len(same) != len(seq) or len(uniq) != len(seq):
        chk.tie_broken("impl/provenance.py:filehistory", f"rc={rc1},{rc2}: {log1[-600:]} {log2[-600:]}")
    else:
        for i, (a, b) in enumerate(zip(same, uniq)):
            n += len(a["psi"])
            diff = [k for k in ("o_point", "x_points", "psi", "psi_sep", "fpol") if a[k] != b[k]]
            if diff:
                chk.fail("history-dependence:file-name", "an equilibrium read from a named geqdsk file depends on what was read from a file of that name earlier in the same interpreter",
                         {"sequence": [list(x) for x in seq], "step": i, "fields": diff, "o_point": a["o_point"], "o_point_of_the_file": b["o_point"]})
                break
            if a["geqdsk_input_digest"] is not None and a["geqdsk_input_digest"] != a["file_digest"]:
                chk.fail("embedded-input-is-not-the-file", "the geqdsk text an equilibrium keeps for embedding is not the text of the file it was read from", {"step": i})
                break
        summary["file-name-history"] = {"steps": len(seq), "psi_samples_per_step": len(same[0]["psi"])}
    shutil.rmtree(tmp, ignore_errors=True)
    chk.count(evaluations=n, distinct=n)
    chk.cov["rule"] = ("constructor on caller-owned arrays: 2 families x both signs x 5 option sets, three constructions each (arrays, wall list, psi_axis, psi_bdry, Bt_axis, psi, fpol); "
                       "command-line round trips (geqdsk written with hypnotoad's writer -> hypnotoad-geqdsk twice -> hypnotoad-recreate-inputs -> hypnotoad-geqdsk) for option sets incl. sign options, "
                       "defaults that are expressions, a YAML file with an expr: option: every numeric variable bit-identical, only grid_id / versions / file name differ; one interpreter building W, X, Y, Z, X, W (W: defaults that are expressions, non-orthogonal): arrays and evaluated option sets; read_geqdsk on named files in one interpreter (a name re-used for other contents, a file read twice) against fresh names")
    chk.notes["roundtrips"] = summary
