"""C11 -- targets sit on the wall; penalty_mask and wall output match the geometry."""
import os
import random
import re
import sys
from fractions import Fraction

import numpy as np
from scipy.interpolate import RectBivariateSpline

import common
import corpus
from common import REPO, GEN
from props import c03, c20

import pyir
import wall as trw

sys.path.insert(0, os.path.join(common.VERIF, "harness", "impl"))

LEVEL = "proof"
TOL = "(1 # 100000000000000)"       # intersect_tolerance = 1e-14


def translate(chk):
    if hasattr(c20, "translate"):
        c20.translate(chk)
    try:
        text, d = trw.emit(REPO)
    except (pyir.TranslationError, SyntaxError, OSError) as e:
        chk.tie_broken("translate/wall.py", f"translator refused the source: {e}")
        return None
    common.write_if_changed(os.path.join(GEN, "Gen_Wall.v"), text)
    return d


def q(x):
    f = Fraction(float(x))
    return f"({f.numerator} # {f.denominator})"


def pt(p):
    return f"(mkpt {q(p[0])} {q(p[1])})"


def plist(ps):
    return "[" + "; ".join(pt(p) for p in ps) + "]"


def wall_input(cfg):
    import importlib
    G = importlib.import_module("grid")
    return G.wall_for(cfg)


# ------------------------------------------------------------------ independent geometry
def inside_polygon(poly, R, Z):
    """even-odd rule by ray casting along +R from each point (independent of the code's reference-point parity test); poly: (n,2) open"""
    R, Z = np.asarray(R, dtype=float), np.asarray(Z, dtype=float)
    inside = np.zeros(R.shape, dtype=bool)
    n = len(poly)
    for k in range(n):
        r1, z1 = poly[k]
        r2, z2 = poly[(k + 1) % n]
        cond = (z1 > Z) != (z2 > Z)
        with np.errstate(divide="ignore", invalid="ignore"):
            rint = r1 + (Z - z1) * (r2 - r1) / (z2 - z1)
        inside ^= cond & (R < rint)
    return inside


def dist_to_polygon(poly, p):
    best = np.inf
    n = len(poly)
    for k in range(n):
        a, b = np.array(poly[k]), np.array(poly[(k + 1) % n])
        ab = b - a
        t = np.clip(np.dot(p - a, ab) / np.dot(ab, ab), 0, 1)
        best = min(best, float(np.hypot(*(p - (a + t * ab)))))
    return best


def chord_crossings(poly, p1, p2):
    """parameters t in [0,1] at which the chord p1->p2 crosses the closed polygon"""
    ts = []
    n = len(poly)
    d = p2 - p1
    for k in range(n):
        a, b = np.array(poly[k]), np.array(poly[(k + 1) % n])
        e = b - a
        den = d[0] * e[1] - d[1] * e[0]
        if abs(den) < 1e-300:
            continue
        t = ((a[0] - p1[0]) * e[1] - (a[1] - p1[1]) * e[0]) / den
        u = ((a[0] - p1[0]) * d[1] - (a[1] - p1[1]) * d[0]) / den
        if -1e-12 <= t <= 1 + 1e-12 and -1e-12 <= u <= 1 + 1e-12:
            ts.append(t)
    return sorted(ts)


def contour_index_correspondence(chk, n):
    """theories/Model_Contour.v (vm_compute) against the real PsiContour on random histories of insert / temporaryExtend / reverse, incl. negative indices"""
    import re
    rng = random.Random(chk.seed + 7)
    cases = []
    for k in range(n):
        m = rng.randint(2, 7)
        ids = list(range(10, 10 + m))
        si = rng.randint(0, m - 1)
        ei = rng.randint(si, m - 1)
        if rng.random() < 0.35:
            ei = ei - m            # the same end point, counted from the end
        ops, cur, nid = [], m, 100
        for _ in range(rng.randint(1, 6)):
            r = rng.random()
            if r < 0.5:
                ops.append(["insert", rng.randint(-cur - 2, cur + 2), nid]); cur += 1
            elif r < 0.7:
                ops.append(["lower", nid]); cur += 1
            elif r < 0.9:
                ops.append(["upper", nid]); cur += 1
            elif ei >= 0:
                ops.append(["reverse"])
            nid += 1
        cases.append(dict(ids=ids, si=si, ei=ei, ops=ops))
    rc, res, o, e = common.run_impl_json("impl/contour.py", dict(cases=cases), timeout=300)
    if res is None:
        chk.tie_broken("impl/contour.py", f"implementation run failed rc={rc}: {(o + e)[-800:]}")
        return 0
    z = lambda v: f"({v})" if v < 0 else str(v)
    items, idx = [], []
    for i, (c, r) in enumerate(zip(cases, res)):
        if isinstance(r, dict):
            chk.tie_broken("impl/contour.py:case", f"{c}: {r['error']}")
            continue
        ops = "; ".join({"insert": lambda op: f"Insert {z(op[1])} {op[2]}", "lower": lambda op: f"ExtendLower {op[1]}", "upper": lambda op: f"ExtendUpper {op[1]}", "reverse": lambda op: "Reverse"}[op[0]](op) for op in c["ops"])
        items.append(f"same (fold_left apply_op [{ops}] (mkc [{'; '.join(map(str, c['ids']))}] {z(c['si'])} {z(c['ei'])})) (mkc [{'; '.join(map(str, r[0]))}] {z(r[1])} {z(r[2])})")
        idx.append(i)
    text = ("From Coq Require Import ZArith List Bool. Import ListNotations.\nFrom HT Require Import Model_Contour.\nLocal Open Scope Z_scope.\n"
            "Fixpoint leq (a b : list Z) : bool := match a, b with [], [] => true | x :: s, y :: t => (x =? y) && leq s t | _, _ => false end.\n"
            "Definition same (a b : contour) : bool := leq (pts a) (pts b) && (si a =? si b) && (ei a =? ei b).\n"
            "Definition rs : list bool := [\n" + ";\n".join(items) + "].\n"
            "Eval vm_compute in (length (filter (fun b => b) rs), length rs).\n"
            "Eval vm_compute in (map fst (filter (fun x => negb (snd x)) (combine (seq 0 (length rs)) rs))).\n")
    rcq, oq, eq = common.coq_eval("cases_C11_contour", text)
    m = re.search(r"\((\d+)(?:%nat)?,\s*(\d+)(?:%nat)?\)", oq.replace("\n", " "))
    agree = int(m.group(1)) if m else 0
    if rcq != 0 or not m or m.group(1) != m.group(2):
        bad = [int(b) for b in re.findall(r"\d+", oq.split("=")[-1])][:4] if m else []
        chk.tie_broken("model:contour-indices", f"model and PsiContour disagree on {len(items) - agree} of {len(items)} histories: {(oq + eq)[-300:]}")
        # the property on the implementation's own result: a history of inserts / extensions keeps startInd and endInd on the points they designated
        for b in bad:
            if b < len(idx):
                c, r = cases[idx[b]], res[idx[b]]
                chk.notes.setdefault("contour_disagreements", []).append({"case": c, "implementation": r})
    # the property itself, on the implementation (histories without reverse, non-negative indices, inserts inside the list)
    nprop = 0
    for c, r in zip(cases, res):
        if isinstance(r, dict) or c["ei"] < 0 or any(op[0] == "reverse" for op in c["ops"]):
            continue
        cur, ok = len(c["ids"]), True
        for op in c["ops"]:
            if op[0] == "insert" and not (0 <= op[1] <= cur):
                ok = False
            cur += 1
        if not ok:
            continue
        nprop += 1
        want_s, want_e = c["ids"][c["si"]], c["ids"][c["ei"]]
        got_s, got_e = r[0][r[1]], r[0][r[2]]
        if (got_s, got_e) != (want_s, want_e):
            chk.fail("contour:end-points-moved", "after a history of insert / temporaryExtend calls startInd or endInd no longer designate the points they designated before (the target point of a contour would be another point)",
                     {"case": c, "result": r, "start_end_before": [want_s, want_e], "start_end_after": [got_s, got_e]})
    chk.notes["contour_index_correspondence"] = {"histories": len(cases), "agree": agree, "property_checked_on": nprop}
    return agree


def run(chk):
    np.seterr(all="ignore")
    translate(chk)
    chk.trust("translate/wall.py (exact-form checks of the wall normalisation / closing, calcPenaltyMask, the closed_wall output)",
              "hand model theories/Model_Wall.v on top of Model_Geom2D (exact rationals), tied by evaluating it (vm_compute) on the walls and cells of real grids and comparing with eq.wall, "
              "closed_wallarray and penalty_mask",
              "CONTRACT: the reference point of the parity test (middle of the equilibrium's bounding box) lies inside the wall and no test segment passes through a wall vertex (monitored: the "
              "oracle uses an independent ray-casting test from each point)")
    chk.assume("that target points lie on the wall and on their flux surface is observed on the corpus (refinement tolerances), not proved")
    chk.coq()
    # a non-orthogonal grid whose outer target is so oblique to the flux surfaces (and so finely spaced) that contours must be EXTENDED to reach the wall
    steep = corpus.steep_cfg()
    grids = [g for g in corpus.get(tier=chk.tier, extra_cfgs=[steep]) if g.ok and g.cfg["kind"] == "tokamak"]
    rng = random.Random(chk.seed)
    n = 0
    worst = dict(mask=0.0, target_wall=0.0, target_psi=0.0)
    cells = []          # for the model correspondence
    walls = []
    cover = dict(mask0=0, mask1=0, mask_frac=0, targets=0, walls={})
    for g in grids:
        d = g.d
        cw = np.array(d["eq"]["closed_wallarray"])
        poly = cw[:-1]
        win = wall_input(g.cfg)
        cover["walls"][g.cfg.get("wall", "rect") + (":acw" if g.cfg.get("wall_anticlockwise") else "")] = cover["walls"].get(g.cfg.get("wall", "rect"), 0) + 1
        walls.append((g.name, win, cw))
        myg = int(d["mesh"]["user_options"].get("y_boundary_guards", 0))
        orth = bool(d["mesh"]["user_options"].get("orthogonal", True))
        # ---- the wall written to the file
        F = d["file"]
        wr, wz = np.array(F["closed_wall_R"]), np.array(F["closed_wall_Z"])
        n += 3
        if not (wr[0] == wr[-1] and wz[0] == wz[-1]):
            chk.fail("closed_wall:not-closed", "closed_wall_R/Z does not end at its first vertex", {"grid": g.name, "R": wr.tolist(), "Z": wz.tolist()})
        shoelace = 0.5 * float(np.sum(wr[:-1] * wz[1:] - wr[1:] * wz[:-1]))
        if not shoelace > 0:
            chk.fail("closed_wall:not-anticlockwise", "closed_wall_R/Z is not anticlockwise", {"grid": g.name, "signed_area": shoelace})
        got = list(zip(wr[:-1].tolist(), wz[:-1].tolist()))
        want = [tuple(map(float, p)) for p in win]
        rots = [want[k:] + want[:k] for k in range(len(want))] + [want[::-1][k:] + want[::-1][:k] for k in range(len(want))]
        if got not in rots:
            chk.fail("closed_wall:not-the-input", "closed_wall_R/Z is not the input wall (same vertices in cyclic order)", {"grid": g.name, "input": want, "written": got})
        # ---- equilibrium interpolant for the flux-surface test
        psi2d = c03.effective_inputs(g)[0]
        meth = d["eq"]["user_options"].get("psi_interpolation_method", "spline")
        spl = c03.Spl2(d["inputs"]["r1d"], d["inputs"]["z1d"], psi2d) if meth == "spline" else c03.DctInterp(d["inputs"]["r1d"], d["inputs"]["z1d"], psi2d)
        p0 = np.array([0.5 * (d["inputs"]["r1d"][0] + d["inputs"]["r1d"][-1]), 0.5 * (d["inputs"]["z1d"][0] + d["inputs"]["z1d"][-1])])
        for rid, r in d["regions"].items():
            A = r["arrays"]
            Rl, Zl = A["Rxy"]["ylow"], A["Zxy"]["ylow"]
            pm = r["penalty_mask"]
            # ---- penalty mask against an independent evaluation, every cell
            in_face = inside_polygon(poly, Rl, Zl)
            for i in range(pm.shape[0]):
                for j in range(pm.shape[1]):
                    o1, o2 = not in_face[i, j], not in_face[i, j + 1]
                    p1, p2 = np.array([Rl[i, j], Zl[i, j]]), np.array([Rl[i, j + 1], Zl[i, j + 1]])
                    if o1 and o2:
                        want_m = 1.0
                    elif o1 or o2:
                        ts = chord_crossings(poly, p1, p2)
                        if not ts:
                            continue      # the face sits on the wall within rounding: either classification is defensible
                        want_m = ts[0] if o1 else 1.0 - ts[-1]
                        if len(ts) > 1:
                            continue
                    else:
                        want_m = 0.0
                    # faces that sit ON the wall (targets) are inside or outside by rounding only: skip cells whose classification hinges on them
                    dd = min(dist_to_polygon(poly, p1), dist_to_polygon(poly, p2))
                    if dd < 1e-7:
                        if abs(pm[i, j] - want_m) > 1e-6:
                            # accept the alternative classification of the face on the wall
                            alt_ok = False
                            for a1 in (o1, not o1) if dist_to_polygon(poly, p1) < 1e-7 else (o1,):
                                for a2 in (o2, not o2) if dist_to_polygon(poly, p2) < 1e-7 else (o2,):
                                    alt = 1.0 if (a1 and a2) else 0.0 if not (a1 or a2) else None
                                    if alt is not None and abs(pm[i, j] - alt) < 1e-6:
                                        alt_ok = True
                                    if alt is None and 0.0 <= pm[i, j] <= 1.0 and (pm[i, j] < 1e-6 or pm[i, j] > 1 - 1e-6):
                                        alt_ok = True
                            if alt_ok:
                                continue
                    n += 1
                    e = abs(pm[i, j] - want_m)
                    worst["mask"] = max(worst["mask"], e)
                    cover["mask0" if want_m == 0 else "mask1" if want_m == 1 else "mask_frac"] += 1
                    if e > 1e-6:
                        chk.fail(f"penalty_mask:{'both-inside' if want_m == 0 else 'both-outside' if want_m == 1 else 'straddling'}",
                                 "penalty_mask is not 0 for a cell with both y-faces inside the wall, 1 for both outside, the outside fraction otherwise",
                                 {"grid": g.name, "region": r["name"], "cell": [i, j], "faces": [p1.tolist(), p2.tolist()], "faces_outside": [bool(o1), bool(o2)], "penalty_mask": float(pm[i, j]), "independent": float(want_m)})
                    if (want_m != 0.0 or rng.random() < 0.03) and len(cells) < (400 if chk.tier == "quick" else 3000):
                        cells.append((g.name, len(walls) - 1, p0, p1, p2, float(pm[i, j])))
            # ---- target points on the wall and on their flux surface; cells between the targets inside, guard cells outside
            lower_wall, upper_wall = r["connections"]["lower"] is None, r["connections"]["upper"] is None
            for has, col, guards in ((lower_wall, myg, slice(0, myg)), (upper_wall, -1 - myg, slice(Rl.shape[1] - 1 - myg, None))):
                if not has:
                    continue
                rows = []
                if not orth:
                    rows = [("ylow", i) for i in range(Rl.shape[0])] + [("corners", i) for i in range(A["Rxy"]["corners"].shape[0])]
                else:
                    # orthogonal: the separatrix contour (radial boundary of the segment that touches the X-point)
                    for edge, xrow in ((0, 0), (1, -1)):
                        k = r["radialIndex"] + edge
                        if any(x is not None for x in (r["xPointsAtStart"][k], r["xPointsAtEnd"][k])):
                            rows.append(("corners", xrow))
                for loc, i in rows:
                    P = np.array([A["Rxy"][loc][i, col], A["Zxy"][loc][i, col]])
                    dw = dist_to_polygon(poly, P)
                    psi_row = r["psi_vals"][2 * i + 1] if loc == "ylow" else r["psi_vals"][2 * (i % (len(r["psi_vals"]) // 2 + 1))] if i >= 0 else r["psi_vals"][-1]
                    if loc == "corners" and i == -1:
                        psi_row = r["psi_vals"][-1]
                    dpsi = abs(float(spl(P[0], P[1])) - psi_row)
                    scale = abs(r["psi_vals"][-1] - r["psi_vals"][0]) + 1e-300
                    n += 2
                    cover["targets"] += 1
                    worst["target_wall"] = max(worst["target_wall"], dw)
                    worst["target_psi"] = max(worst["target_psi"], dpsi / scale)
                    # the crossing is located on the FineContour (chords between finecontour_Nfine points) and then refined onto the flux surface:
                    # its distance from the wall is second order in the fine spacing (2.6e-6 m observed at Nfine = 100)
                    nfine = float(d["mesh"]["user_options"].get("finecontour_Nfine", 100))
                    if dw > 1e-5 * (100.0 / nfine) ** 2:
                        chk.fail(f"target-off-wall:{'orth' if orth else 'nonorth'}", "a target point (y-face between boundary cells and domain) does not lie on the wall polygon",
                                 {"grid": g.name, "region": r["name"], "loc": loc, "row": i, "point": P.tolist(), "distance_to_wall": dw})
                    if dpsi > 1e-6 * scale:
                        chk.fail("target-off-flux-surface", "a target point does not lie on its flux surface", {"grid": g.name, "region": r["name"], "loc": loc, "row": i, "point": P.tolist(), "psi_error": dpsi})
                if not orth:
                    Rc, Zc = A["Rxy"]["centre"], A["Zxy"]["centre"]
                    inc = inside_polygon(poly, Rc, Zc)
                    ny = Rc.shape[1]
                    gcols = list(range(0, myg)) if col >= 0 else list(range(ny - myg, ny))
                    dcols = [c for c in range(ny) if (c >= myg if lower_wall else True) and (c < ny - myg if upper_wall else True)]
                    n += Rc.size
                    if gcols and inc[:, gcols].any():
                        chk.fail("guard-cell-inside-wall", "a boundary guard cell centre lies inside the wall", {"grid": g.name, "region": r["name"]})
                    if not inc[:, dcols].all():
                        chk.fail("domain-cell-outside-wall", "a cell between the targets has its centre outside the wall", {"grid": g.name, "region": r["name"]})
    # ---- stub level: the real calcPenaltyMask on arbitrary (non-convex, either orientation) walls and arbitrary face positions
    import math
    scases = []
    for k in range(12 if chk.tier == "quick" else 80):
        nv = rng.choice([6, 8, 10, 14])
        c = (1.5, 0.0)
        ang = sorted(2 * math.pi * (k2 + rng.uniform(-0.35, 0.35)) / nv for k2 in range(nv))       # angular gaps < 180 degrees: star-shaped around c
        # spiky star: inner and outer radii alternate, so that straight lines from an off-centre reference point leave and re-enter the wall
        wl = [(c[0] + (rr := (rng.uniform(0.17, 0.24) if k2 % 2 else rng.uniform(0.45, 0.6))) * math.cos(a), c[1] + rr * math.sin(a)) for k2, a in enumerate(ang)]
        if rng.random() < 0.5:
            wl = wl[::-1]
        # reference point: the middle of the 'equilibrium box', placed off the star centre but inside the wall
        for _ in range(50):
            p0 = (c[0] + rng.uniform(-0.15, 0.15), c[1] + rng.uniform(-0.15, 0.15))
            if inside_polygon(np.array(wl), np.array([p0[0]]), np.array([p0[1]]))[0] and dist_to_polygon(np.array(wl), np.array(p0)) > 0.02:
                break
        else:
            p0 = c        # the star centre is always inside
        box = (p0[0] - 0.7, p0[0] + 0.7, p0[1] - 0.8, p0[1] + 0.8)
        nxs, nys = 8, 11
        faces = [[(c[0] + (rf := rng.uniform(0.0, 0.7)) * math.cos(af := rng.uniform(0, 2 * math.pi)), c[1] + rf * math.sin(af)) for _ in range(nys + 1)] for _ in range(nxs)]
        scases.append(dict(wall=wl, box=box, faces=faces, p0=p0))
    # U-shaped walls (a baffle / dome reaching between the reference point and part of the interior): straight lines from the reference point to points
    # inside the other arm cross the wall twice
    for k in range(4 if chk.tier == "quick" else 16):
        d0 = rng.uniform(-0.3, 0.0)
        wl = [(1.1, -0.6), (1.9, -0.6), (1.9, 0.6), (1.6 + rng.uniform(-0.03, 0.03), 0.6), (1.6, d0), (1.4, d0 + rng.uniform(-0.05, 0.05)), (1.4 + rng.uniform(-0.03, 0.03), 0.6), (1.1, 0.6)]
        if k % 2:
            wl = wl[::-1]
        p0 = (1.25 + rng.uniform(-0.05, 0.05), 0.2 + rng.uniform(-0.1, 0.1))
        box = (p0[0] - 0.7, p0[0] + 0.7, p0[1] - 0.8, p0[1] + 0.8)
        faces = [[(rng.uniform(1.0, 2.0), rng.uniform(-0.7, 0.7)) for _ in range(12)] for _ in range(8)]
        scases.append(dict(wall=wl, box=box, faces=faces, p0=p0))
    # few-vertex walls lying entirely on one side of Z = 0 (every edge, the implied closing edge included, matters for the orientation test)
    for k in range(6 if chk.tier == "quick" else 24):
        zc = rng.choice([-1, 1]) * rng.uniform(1.5, 3.0)
        nv = rng.choice([3, 4, 5])
        # the reference point (1.5, zc) must be inside the wall (the contract of the mask): with three vertices an angular gap can exceed
        # 180 degrees, which puts it outside -- such draws are repeated
        for _ in range(100):
            ang = sorted(2 * math.pi * (k2 + rng.uniform(-0.3, 0.3)) / nv for k2 in range(nv))
            wl = [(1.5 + rng.uniform(0.3, 0.6) * math.cos(a), zc + rng.uniform(0.3, 0.6) * math.sin(a)) for a in ang]
            if inside_polygon(np.array(wl), np.array([1.5]), np.array([zc]))[0] and dist_to_polygon(np.array(wl), np.array((1.5, zc))) > 0.02:
                break
        else:
            wl = [(1.5 + 0.5 * math.cos(2 * math.pi * k2 / nv), zc + 0.5 * math.sin(2 * math.pi * k2 / nv)) for k2 in range(nv)]
        rot = rng.randrange(nv)
        wl = wl[rot:] + wl[:rot]
        if k % 2:
            wl = wl[::-1]
        p0 = (1.5, zc)
        box = (p0[0] - 0.7, p0[0] + 0.7, p0[1] - 0.8, p0[1] + 0.8)
        faces = [[(rng.uniform(0.8, 2.2), zc + rng.uniform(-0.7, 0.7)) for _ in range(6)] for _ in range(4)]
        scases.append(dict(wall=wl, box=box, faces=faces, p0=p0))
    rc, sres, so, se = common.run_impl_json("impl/wallstub.py", dict(cases=scases), timeout=600)
    nstub = dict(cells=0, double_cross_inside=0)
    if sres is None:
        chk.tie_broken("impl/wallstub.py", f"rc={rc}: {(so + se)[-800:]}")
    else:
        for c, r in zip(scases, sres):
            if "error" in r:
                chk.fail("stub:raised", "calcPenaltyMask raised on a stub region", {"wall": c["wall"], "error": r["error"]})
                continue
            poly = np.array(r["closed"])[:-1]
            sh = 0.5 * float(np.sum(poly[:, 0] * np.roll(poly[:, 1], -1) - np.roll(poly[:, 0], -1) * poly[:, 1]))
            n += 1
            if not sh > 0:
                chk.fail("stub:wall-not-anticlockwise", "the normalised wall is not anticlockwise", {"input_wall": c["wall"], "normalised": poly.tolist(), "signed_area": sh})
            walls.append((f"stub{len(walls)}", c["wall"], np.array(r["closed"])))
            F = np.array(c["faces"])
            m = np.array(r["mask"])
            ins = inside_polygon(poly, F[:, :, 0], F[:, :, 1])
            p0 = np.array(c["p0"])
            for i in range(m.shape[0]):
                for j in range(m.shape[1]):
                    p1, p2 = F[i, j], F[i, j + 1]
                    if min(dist_to_polygon(poly, p1), dist_to_polygon(poly, p2)) < 1e-9:
                        continue
                    o1, o2 = not ins[i, j], not ins[i, j + 1]
                    ts = chord_crossings(poly, p1, p2)
                    if o1 and o2:
                        want_m = 1.0
                    elif o1 or o2:
                        if len(ts) != 1:
                            continue       # the chord crosses the wall several times: the code uses the first reported crossing, which the property does not pin down
                        want_m = ts[0] if o1 else 1.0 - ts[0]
                    else:
                        want_m = 0.0
                    for pp, oo in ((p1, o1), (p2, o2)):
                        if not oo and len(chord_crossings(poly, p0, pp)) >= 2:
                            nstub["double_cross_inside"] += 1
                    n += 1
                    nstub["cells"] += 1
                    if abs(m[i, j] - want_m) > 1e-9:
                        chk.fail(f"stub:penalty_mask:{'both-inside' if want_m == 0 else 'both-outside' if want_m == 1 else 'straddling'}",
                                 "penalty_mask (stub region, arbitrary wall) is not 0 / 1 / the outside fraction of the chord",
                                 {"wall": c["wall"], "reference_point": c["p0"], "faces": [p1.tolist(), p2.tolist()], "faces_outside": [bool(o1), bool(o2)], "penalty_mask": float(m[i, j]), "independent": float(want_m)})
                    if len(cells) < (700 if chk.tier == "quick" else 4000):
                        cells.append((walls[-1][0], len(walls) - 1, p0, p1, p2, float(m[i, j])))
    chk.notes["stub_cases"] = dict(count=len(scases), **nstub)
    # ---- model correspondence: vm_compute of Model_Wall on the same walls and cells
    L = ["From Coq Require Import QArith Qabs List Bool.", "From HT Require Import Model_Geom2D Model_Wall.", "Import ListNotations.", "Local Open Scope Q_scope.",
         "Definition peq (a b : pt) : bool := Qeq_bool (cR a) (cR b) && Qeq_bool (cZ a) (cZ b).",
         "Fixpoint leq (a b : list pt) : bool := match a, b with [], [] => true | x :: r, y :: s => peq x y && leq r s | _, _ => false end.",
         "Definition okcell (cw : list pt) (p0 p1 p2 : pt) (m : Q) : bool := Qle_bool (Qabs (penalty " + TOL + " cw p0 p1 p2 - m)) (1 # 1000000000)."]
    for k, (name, win, cw) in enumerate(walls):
        L.append(f"Definition w{k} := {plist(win)}.")
        L.append(f"Definition cw{k} := {plist(cw.tolist())}.")
    L.append("Definition wall_results := Eval vm_compute in [" + "; ".join(f"leq (close_wall (normalise_wall w{k})) cw{k}" for k in range(len(walls))) + "].")
    L.append("Print wall_results.")
    L.append("Definition cell_results := Eval vm_compute in [" + "; ".join(f"okcell cw{wi} {pt(p0)} {pt(p1)} {pt(p2)} {q(m)}" for (_, wi, p0, p1, p2, m) in cells) + "].")
    L.append("Print cell_results.")
    rc, out, err = common.coq_eval("c11_cases", "\n".join(L), timeout=1200)
    if rc != 0:
        chk.tie_broken("coq-eval:c11_cases", f"coqc failed: {(out + err)[-800:]}")
    else:
        flat = out.replace("\n", " ")
        mw = re.search(r"wall_results =\s*\[([^\]]*)\]", flat)
        mc = re.search(r"cell_results =\s*\[([^\]]*)\]", flat)
        bw = re.findall(r"true|false", mw.group(1)) if mw else []
        bc = re.findall(r"true|false", mc.group(1)) if mc else []
        if len(bw) != len(walls) or len(bc) != len(cells):
            chk.tie_broken("coq-eval:c11_cases", f"could not parse the model's results ({len(bw)}/{len(walls)} walls, {len(bc)}/{len(cells)} cells)")
        else:
            n += len(bw) + len(bc)
            for (name, win, cw), b in zip(walls, bw):
                if b != "true":
                    chk.tie_broken("model:normalise_wall", f"grid {name}: close_wall (normalise_wall input) differs from eq.closed_wallarray {cw.tolist()} for input {win}")
            bad = [(c[0], c[3].tolist(), c[4].tolist(), c[5]) for c, b in zip(cells, bc) if b != "true"]
            if bad:
                chk.tie_broken("model:penalty", f"{len(bad)} of {len(cells)} cells: the model's penalty differs from penalty_mask, first: {bad[0]}")
            chk.notes["model_correspondence"] = {"walls": len(walls), "cells": len(cells), "cell_disagreements": len(bad)}
    n += contour_index_correspondence(chk, 300 if chk.tier == "quick" else 3000)
    chk.count(evaluations=n, distinct=n)
    chk.cov["rule"] = ("every cell of every region of the tokamak corpus grids (rectangular clockwise input, slanted and many-vertex anticlockwise walls in the thorough tier; orthogonal and "
                       "non-orthogonal; guard counts 0..2): penalty_mask against an independent ray-casting evaluation; target points on the wall / on their flux surface; cell centres inside / "
                       "outside; the wall written to the file; the model evaluated by vm_compute on the same walls and on all non-trivial cells")
    chk.notes["coverage_counts"] = cover
    chk.notes["worst"] = {k: float(f"{v:.3g}") for k, v in worst.items()}
    chk.sample(chk.notes["worst"])
