"""C01 -- every grid point lies on its flux surface."""
import os
import random
import re

import numpy as np

import common
import corpus
from common import REPO, GEN

import pyir
import slices as tr

LEVEL = "proof"
LOCS = {"centre": "fill_centre", "xlow": "fill_xlow", "ylow": "fill_ylow", "corners": "fill_corners"}


def translate(chk):
    try:
        text, info = tr.emit(REPO)
    except (pyir.TranslationError, SyntaxError, OSError) as e:
        chk.tie_broken("translate/slices.py", f"structure fingerprint refused mesh.py: {e}")
        return None
    common.write_if_changed(os.path.join(GEN, "Gen_Slices.v"), text)
    return info


def follow_cases(rng, n):
    cases = []
    R0, Z0 = 1.2, 0.5
    psi0c = R0 * R0 + Z0 * Z0
    for _ in range(n):
        m = rng.randint(2, 9)
        vals = sorted({round(rng.uniform(0.3, 4.0), 3) for _ in range(m)} | {round(rng.uniform(4.1, 5), 3)})
        if rng.random() < 0.5:
            vals = vals[::-1]
        k = rng.random()
        # psi0 is fixed by the start point; shift the list so that psi0 is at an end / inside / outside
        if k < 0.25:
            shift = psi0c - vals[0]
        elif k < 0.4:
            shift = psi0c - vals[-1]
        elif k < 0.7:
            i = rng.randrange(len(vals) - 1)
            shift = psi0c - 0.5 * (vals[i] + vals[i + 1])
        elif k < 0.85:
            shift = psi0c + rng.uniform(0.01, 0.5) - min(vals)
        else:
            shift = psi0c - rng.uniform(0.01, 0.5) - max(vals)
        vals = [v + shift for v in vals]
        if min(vals) <= 0.05:
            continue
        cases.append(dict(psivals=vals, psi0=psi0c, R0=R0, Z0=Z0, as_array=rng.random() < 0.7))
    return cases


def check_follow(chk, cases, res):
    nok = 0
    for c, r in zip(cases, res):
        if isinstance(r, dict):
            chk.fail("followPerpendicular:raises", f"followPerpendicular raised on monotone psivals: {r['error']}", {"case": c})
            continue
        want = [(c["R0"] * (p / c["psi0"]) ** 0.5, c["Z0"] * (p / c["psi0"]) ** 0.5) for p in c["psivals"]]
        if len(r) != len(want):
            chk.fail("followPerpendicular:order", "followPerpendicular returns a different number of points than psivals", {"case": c, "n": len(r)})
            continue
        err = max(max(abs(a[0] - b[0]), abs(a[1] - b[1])) for a, b in zip(r, want))
        if err > 1e-7:
            swapped = sorted(map(tuple, r)) == sorted(want) if False else None
            chk.fail("followPerpendicular:points", "followPerpendicular does not return the points of the grad(psi) line at the requested psi values, in their order, to the requested tolerance (rtol=1e-10)",
                     {"case": c, "max_error": err, "got": r[:4], "expected": want[:4]})
        else:
            nok += 1
    return nok


def grid_oracle(chk, grids, info):
    n = 0
    worst = {}
    fill = info["fill"] if info else {"centre": (1, 1), "xlow": (0, 1), "ylow": (1, 0), "corners": (0, 0)}
    for g in grids:
        if not g.ok:
            chk.notes.setdefault("corpus_failed", []).append({"grid": g.name, "error": g.error.strip().splitlines()[-1][:200]})
            continue
        w = 0.0
        for rid, r in g.d["regions"].items():
            pv = r["psi_vals"]
            A = r["arrays"]
            scale = max(1.0, float(np.max(np.abs(pv))))
            tol = 1e-7 * scale
            for loc, (cs, ps) in fill.items():
                ev = r["interp"][loc]["psi"]
                want = pv[cs::2][:, None]
                resid = np.abs(ev - want)
                ok = np.ones_like(resid, dtype=bool)
                if loc == "corners":
                    ri = r["radialIndex"]
                    for (a, b), xp in (((0, 0), r["xPointsAtStart"][ri]), ((-1, 0), r["xPointsAtStart"][ri + 1]), ((0, -1), r["xPointsAtEnd"][ri]), ((-1, -1), r["xPointsAtEnd"][ri + 1])):
                        if xp is not None:
                            ok[a, b] = False
                            # the exemption is for corners AT an X-point of the flux surface of that radial index: the X-point must be on it
                            # (on the dct member this test saw 1.3e-5: finding F30, psi_sep taken from another interpolant -- repaired)
                            if abs(ev[a, b] - want[a, 0]) > 1e-6 * scale:
                                chk.fail("pinned-corner:xpoint-not-on-this-surface", "a corner is pinned to an X-point that does not lie on the flux surface of the corner's radial index",
                                         {"grid": g.name, "region": r["name"], "corner": [a, b], "psi_at_xpoint": float(ev[a, b]), "psi_of_radial_index": float(want[a, 0]), "xpoint": list(xp)})
                            if abs(A["Rxy"]["corners"][a, b] - xp[0]) > 0 or abs(A["Zxy"]["corners"][a, b] - xp[1]) > 0:
                                chk.fail("pinned-corner", "a corner that should be pinned to the X-point is not at the X-point", {"grid": g.name, "region": r["name"], "corner": [a, b]})
                n += int(ok.sum())
                m = float(resid[ok].max()) if ok.any() else 0.0
                w = max(w, m / scale)
                if m > tol:
                    p = np.unravel_index(np.argmax(np.where(ok, resid, 0)), resid.shape)
                    chk.fail(f"off-surface:{loc}", f"psi at a {loc} grid point differs from the radial psi-grid value of its index by more than the refinement tolerance",
                             {"grid": g.name, "region": r["name"], "loc": loc, "index": [int(p[0]), int(p[1])], "psi_found": float(ev[p]), "psi_expected": float(want[p[0], 0]), "tol": tol})
                # the index map of the model: array entry (i, j) is point ps+2j of contour cs+2i
                # (the last ylow/corner column is overwritten by the upper neighbour's first in getRZBoundary)
                C = r["contours"]
                Rm = np.array([[C[cs + 2 * i]["points"][ps + 2 * j][0] for j in range(ev.shape[1])] for i in range(ev.shape[0])])
                cmpR = A["Rxy"][loc]
                sl = (slice(None), slice(None, -1)) if (loc in ("ylow", "corners") and r["connections"]["upper"] is not None) else (slice(None), slice(None))
                skip = ~ok if loc == "corners" else np.zeros_like(ok)
                if np.any((Rm[sl] != cmpR[sl]) & ~skip[sl]):
                    chk.tie_broken(f"index-map:{loc}", f"grid {g.name} region {r['name']}: array entries are not contours[{cs}+2i].points[{ps}+2j]")
            # psixy as stored
            for loc in ("centre", "xlow", "ylow"):
                if loc in A["psixy"]:
                    d = np.abs(A["psixy"][loc] - r["interp"][loc]["psi"]).max()
                    if d > 1e-14 * scale:
                        chk.fail("psixy", "psixy is not the interpolated psi at the grid point", {"grid": g.name, "region": r["name"], "loc": loc, "max_diff": float(d)})
        worst[g.name] = float(f"{w:.3g}")
    chk.notes["max_relative_psi_residual"] = worst
    return n


# ---------------------------------------------------------------------------------------------------------------------
# refinement: theories/Model_Refine.v (PrimFloat instance) against the real refinePointNewton / refinePoint / getRefined
METHOD_COQ = {"newton": "MNewton", "line": "MLine", "integrate": "MIntegrate", "integrate+newton": "MIntegrateNewton", "none": "MNone"}


def _poly(coef, R, Z):
    a, b, c, d, e = coef
    return a * R * R + b * Z * Z + c * R * Z + d * R + e * Z


def refine_cases(rng, n):
    cases = []
    hx = lambda x: float(x).hex()

    def field():
        k = rng.random()
        if k < 0.5:      # tilted bowl
            coef = [round(rng.uniform(0.3, 2.0), 3), round(rng.uniform(0.3, 2.0), 3), round(rng.uniform(-0.5, 0.5), 3), round(rng.uniform(-1, 1), 3), round(rng.uniform(-1, 1), 3)]
        elif k < 0.8:    # saddle (X-point like)
            coef = [round(rng.uniform(0.3, 2.0), 3), -round(rng.uniform(0.3, 2.0), 3), round(rng.uniform(-0.5, 0.5), 3), 0.0, round(rng.uniform(-0.2, 0.2), 3)]
        else:            # nearly linear
            coef = [round(rng.uniform(-0.05, 0.05), 3), 0.0, 0.0, round(rng.uniform(0.5, 2), 3), round(rng.uniform(-2, 2), 3)]
        return coef

    def start(coef):
        R, Z = rng.uniform(1.0, 3.0), rng.uniform(-1.0, 1.0)
        gR = 2 * coef[0] * R + coef[2] * Z + coef[3]
        gZ = 2 * coef[1] * Z + coef[2] * R + coef[4]
        return R, Z, gR, gZ

    for i in range(n):
        coef = field()
        R, Z, gR, gZ = start(coef)
        atol = rng.choice([2e-8, 1e-6, 1e-10, 1e-3])
        k = rng.random()
        if k < 0.45:     # the tangent has a component along the gradient: Newton converges (or not, for large offsets)
            mix = rng.uniform(-0.6, 0.6)
            t = (gR + mix * gZ, gZ - mix * gR)
            sc = rng.choice([1.0, 0.1, 3.0]) / max(1e-3, (t[0] ** 2 + t[1] ** 2) ** 0.5)
            t = (t[0] * sc, t[1] * sc)
            s_true = rng.choice([1e-4, 1e-2, 0.1, 0.5, -0.3])
            psival = _poly(coef, R + s_true * t[0], Z + s_true * t[1])
        elif k < 0.64:   # the line touches the flux surface (double root): linear convergence, 6-16 iterations, so that the
            # iteration limit (count > 10) decides between convergence and SolutionError
            nrm = max(1e-3, (gR * gR + gZ * gZ) ** 0.5)
            sc = rng.choice([0.3, 1.0, 2.0])
            t = (-gZ / nrm * sc, gR / nrm * sc)
            aim = rng.random() < 0.6
            s0 = rng.choice([0.3, 0.5, 1.0]) if aim else rng.choice([0.003, 0.01, 0.03, 0.1, 0.3, 1.0])
            psival = _poly(coef, R, Z)
            R, Z = R - s0 * t[0], Z - s0 * t[1]
            atol = rng.choice([2e-8, 1e-6, 1e-10, 1e-4])
            if aim:
                # aim at a given number of iterations: |f| falls by about 4 per iteration (f ~ (s - s0)^2), iteration kstar is the
                # first below atol; the code allows 12 iterations
                kstar = rng.choice([10, 11, 12, 13, 14])
                atol = abs(_poly(coef, R, Z) - psival) / 4.0 ** kstar * 1.8
        elif k < 0.7:    # already on the surface: early exit (relative tolerance)
            t = (rng.uniform(-1, 1), rng.uniform(-1, 1))
            psival = _poly(coef, R, Z) * (1 + rng.choice([0.0, 1e-12, 0.3 * atol, 3 * atol]))
        elif k < 0.85:   # tangent along the contour: derivative ~ 0, diverges / overshoots
            t = (-gZ, gR)
            psival = _poly(coef, R, Z) + rng.choice([1e-3, 0.1])
        else:            # unreachable value or unattainable tolerance: runs into the iteration limit
            t = (gR, gZ)
            psival = _poly(coef, R, Z) + rng.choice([-50.0, 0.01])
            atol = rng.choice([1e-300, 1e-19, atol])
        base = dict(coef=[hx(x) for x in coef], psival=hx(psival), atol=hx(atol), p=[hx(R), hx(Z)], t=[hx(t[0]), hx(t[1])])
        j = i % 10
        if j < 6:
            cases.append(dict(base, kind="newton"))
        elif j < 8:
            ms = [rng.choice(list(METHOD_COQ)) for _ in range(rng.randint(1, 4))]
            scr = lambda: ["fail"] if rng.random() < 0.5 else ["done", hx(R + rng.uniform(-1e-3, 1e-3)), hx(Z + rng.uniform(-1e-3, 1e-3))]
            cases.append(dict(base, kind="point", methods=ms, integrate=scr(), line=scr()))
        else:
            npts = rng.choice([1, 2, 2, 3, 4, 5, 7])
            # points strung roughly along the contour through (R, Z), slightly off it
            nrm = max(1e-3, (gR * gR + gZ * gZ) ** 0.5)
            pts = []
            for m in range(npts):
                u = 0.05 * (m - npts / 2)
                off = rng.uniform(-2e-3, 2e-3)
                pts.append([hx(R - u * gZ / nrm + off * gR / nrm), hx(Z + u * gR / nrm + off * gZ / nrm)])
            ms = rng.choice([["newton"], ["newton", "none"], ["none"], ["none", "newton"]])
            si = rng.randrange(npts)
            ei = rng.randrange(si, npts)
            cases.append(dict(base, kind="contour" if i % 20 < 15 else "fine", pts=pts, methods=ms, skip=rng.random() < 0.5, si=si, ei=ei, psival=hx(_poly(coef, R, Z))))
    return cases


def integrate_contract(chk, n):
    """CONTRACT oracle for the scripted 'integrate' primitive: the real refinePointIntegrate, started on either side of the surface (psi above
    and below psival, both signs of psi), ends closer to it (observed ratio of residuals <= 0.22 on the pinned tree; bound 0.5).  Added because of seed C01-9."""
    rng = random.Random(chk.seed + 303)
    hx = lambda v: float(v).hex()
    cases = []
    for k in range(n):
        sg = rng.choice([-1.0, 1.0])
        coef = [sg * rng.uniform(0.5, 2.0), sg * rng.uniform(0.5, 3.0), sg * rng.uniform(-0.3, 0.3), 0.0, 0.0]
        R, Z = rng.uniform(1.0, 2.0), rng.uniform(-1.0, 1.0)
        p0 = coef[0] * R * R + coef[1] * Z * Z + coef[2] * R * Z
        d = (1 if k % 2 else -1) * 10 ** rng.uniform(-5, -1.5)
        cases.append(dict(kind="integrate_direct", coef=[hx(x) for x in coef], psival=hx(p0 * (1 + d)), atol=hx(1e-8), p=[hx(R), hx(Z)], t=[hx(0.0), hx(1.0)], offset=d))
    rc, res, o, e = common.run_impl_json("impl/refine.py", dict(cases=cases), timeout=600)
    if res is None or len(res) != len(cases):
        chk.tie_broken("impl/refine.py:integrate", f"implementation run failed rc={rc}: {(o + e)[-1000:]}")
        return 0
    worst, nd = 0.0, 0
    for c, r in zip(cases, res):
        if r[0] != "done":
            continue          # an explicit SolutionError is handled by refinePoint's fallback chain (modelled)
        nd += 1
        pv, a, b = float.fromhex(c["psival"]), float.fromhex(r[3]), float.fromhex(r[4])
        ratio = abs(b - pv) / abs(a - pv)
        worst = max(worst, ratio)
        if not ratio < 0.5:
            side = "psi-above" if (a - pv) > 0 else "psi-below"
            chk.fail(f"integrate:moves-away:{side}", "refinePointIntegrate does not move the point towards its flux surface (residual after / before >= 0.5)",
                     dict(case=c, psi_start=a, psi_end=b, psival=pv, ratio=ratio))
    chk.notes["integrate_contract"] = {"cases": len(cases), "done": nd, "worst_residual_ratio": worst}
    if nd < len(cases) // 2:
        chk.tie_broken("impl/refine.py:integrate", f"refinePointIntegrate failed on {len(cases) - nd} of {len(cases)} smooth cases")
    return nd


def refine_correspondence(chk, n):
    """run the PrimFloat instance of the model and the real methods on the same inputs; outcomes must agree bit for bit"""
    fl = lambda h: common.fhex(float.fromhex(h))
    rng = random.Random(chk.seed + 101)
    cases = refine_cases(rng, n)
    rc, res, o, e = common.run_impl_json("impl/refine.py", dict(cases=cases), timeout=600)
    if res is None or len(res) != len(cases):
        chk.tie_broken("impl/refine.py", f"implementation run failed rc={rc}: {(o + e)[-1000:]}")
        return 0
    items, stats = [], {}
    for c, r in zip(cases, res):
        if r[0] == "error":
            chk.tie_broken("impl/refine.py:case", f"unexpected exception {r[1]} on {c}")
            continue
        stats[f"{c['kind']}:{r[0]}"] = stats.get(f"{c['kind']}:{r[0]}", 0) + 1
        head = f"{' '.join(fl(x) for x in c['coef'])} {fl(c['psival'])} {fl(c['atol'])}"
        pt = lambda a: f"(mk2 {fl(a[0])} {fl(a[1])})"
        oc = lambda x: "Fail" if x[0] == "fail" else f"(Done {pt(x[1:3])})"
        if c["kind"] == "newton":
            items.append(f"k_newton {head} {pt(c['p'])} {pt(c['t'])} {oc(r)}")
        elif c["kind"] == "point":
            ms = "[" + "; ".join(METHOD_COQ[m] for m in c["methods"]) + "]"
            items.append(f"k_point {head} {pt(c['p'])} {pt(c['t'])} {ms} {oc(c['integrate'])} {oc(c['line'])} {oc(r)}")
        else:
            ms = "[" + "; ".join(METHOD_COQ[m] for m in c["methods"]) + "]"
            pts = "[" + "; ".join(pt(a) for a in c["pts"]) + "]"
            if r[0] == "done":
                if (r[2], r[3]) != (c["si"], c["ei"]):
                    chk.fail("getRefined:indices", "getRefined does not carry startInd / endInd over to the new contour", {"case": c, "got": r[2:]})
                exp = "(Some [" + "; ".join(pt(a) for a in r[1]) + "])"
            else:
                exp = "None"
            items.append(f"k_contour {head} {pts} {ms} {'true' if c['skip'] else 'false'} {c['si']}%nat {c['ei']}%nat {exp}")
    text = ("From Coq Require Import ZArith List Bool PrimFloat.\nFrom HT Require Import Field Model_Refine.\nImport ListNotations.\nLocal Open Scope float_scope.\n"
            "Definition poly (a b c d e R Z : float) : float := a * R * R + b * Z * Z + c * R * Z + d * R + e * Z.\n"
            "Definition peq (a b : @pt2 float) : bool := PrimFloat.eqb (pR a) (pR b) && PrimFloat.eqb (pZ a) (pZ b).\n"
            "Definition oeq (a b : @outcome float) : bool := match a, b with Done p, Done q => peq p q | Fail, Fail => true | _, _ => false end.\n"
            "Fixpoint leq (a b : list (@pt2 float)) : bool := match a, b with [], [] => true | x :: s, y :: t => peq x y && leq s t | _, _ => false end.\n"
            "Definition nol : @pt2 float -> @pt2 float -> float -> float -> @outcome float := fun _ _ _ _ => Fail.\n"
            "Definition noi : @pt2 float -> @outcome float := fun _ => Fail.\n"
            "Definition k_newton a b c d e pv atol p t (x : @outcome float) : bool := oeq (refine_newton Fops (poly a b c d e) pv p t atol) x.\n"
            "Definition k_point a b c d e pv atol p t ms (i l x : @outcome float) : bool :=\n"
            "  oeq (refine_point Fops (poly a b c d e) pv (fun _ _ _ _ => l) (fun _ => i) ms p t 0x1.999999999999ap-4 atol) x.\n"
            "Definition k_contour a b c d e pv atol pts ms skip si ei (x : option (list (@pt2 float))) : bool :=\n"
            "  match get_refined Fops (poly a b c d e) pv nol noi ms pts 0x1.999999999999ap-4 atol skip si ei, x with\n"
            "  | Some r, Some y => leq r y | None, None => true | _, _ => false end.\n"
            "Definition rs : list bool := [\n" + ";\n".join(items) + "].\n"
            "Eval vm_compute in (length (filter (fun b => b) rs), length rs).\n"
            "Eval vm_compute in (map fst (filter (fun x => negb (snd x)) (combine (seq 0 (length rs)) rs))).\n")
    rcq, oq, eq = common.coq_eval("cases_C01_refine", text)
    m = re.search(r"\((\d+)(?:%nat)?,\s*(\d+)(?:%nat)?\)", oq.replace("\n", " "))
    agree = int(m.group(1)) if m else 0
    if rcq != 0 or not m or m.group(1) != m.group(2):
        bad = re.findall(r"\d+", oq.split("=")[-1])[:5] if m else []
        examples = [dict(case=cases[int(b)], implementation=res[int(b)]) for b in bad if int(b) < len(cases)]
        # a disagreement means the model no longer describes the code (or the code changed behaviour): the tie is broken and the
        # disagreeing inputs are the candidates for a failing input -- decided by the residual test below
        chk.tie_broken("model:refine", f"model (PrimFloat) and implementation disagree on {len(items) - agree} of {len(items)} refinement cases: {(oq + eq)[-400:]}")
        chk.notes["refine_disagreements"] = examples
    # the property itself on the implementation's outcomes: an accepted Newton / tolerant-method result must be within the tolerance
    nviol = 0
    for c, r in zip(cases, res):
        if r[0] != "done":
            continue
        coef = [float.fromhex(x) for x in c["coef"]]
        pv, atol = float.fromhex(c["psival"]), float.fromhex(c["atol"])
        bound = max(atol, atol * abs(pv))
        def resid(a):
            return abs(_poly(coef, float.fromhex(a[0]), float.fromhex(a[1])) - pv)
        if c["kind"] == "newton" and not resid(r[1:3]) < bound * (1 + 1e-9) + 1e-300:
            nviol += 1
            chk.fail("refine:newton-accepts-off-surface", "refinePointNewton returned a point whose psi differs from psival by more than the tolerance", {"case": c, "got": r, "residual": resid(r[1:3]), "bound": bound})
        if c["kind"] in ("contour", "fine") and set(c["methods"]) == {"newton"}:
            for j, a in enumerate(r[1]):
                if c["skip"] and j in (c["si"], c["ei"]):
                    continue
                if not resid(a) < bound * (1 + 1e-9) + 1e-300:
                    nviol += 1
                    chk.fail("refine:contour-point-off-surface", "getRefined (newton only) returned a contour with a point off its flux surface", {"case": c, "index": j, "residual": resid(a), "bound": bound})
                    break
    chk.notes["refine_correspondence"] = {"cases": len(cases), "agree": agree, "outcomes": stats}
    chk.sample({"refine_case": cases[0]})
    return agree


def pin_oracle(chk):
    """every X-point a region pins the corners of a radial boundary to must lie on the flux surface of that boundary -- checked on real
    equilibria of every topology (no mesh needed, so it also speaks when a wrong pin makes the mesh refuse to generate)"""
    from corpus import tok, SN, DN, CDN
    cfgs = [tok("pins_lsn", "lsn", SN), tok("pins_usn", "usn", SN), tok("pins_cdn", "cdn", CDN), tok("pins_udn", "udn", DN), tok("pins_ldn", "ldn", DN),
            tok("pins_udn2", "udn2", DN), tok("pins_udn_neg", "udn", DN, sign=-1.0), tok("pins_ldn_neg", "ldn", DN, sign=-1.0), tok("pins_udn_m", "udn_m", DN, mirror=True)]
    rc, res, o, e = common.run_impl_json("impl/pins.py", dict(cfgs=cfgs), timeout=600)
    if res is None:
        chk.tie_broken("impl/pins.py", f"implementation run failed rc={rc}: {(o + e)[-1000:]}")
        return 0
    n, seen = 0, {}
    for eqd in res:
        if "error" in eqd:
            chk.tie_broken(f"pins:{eqd['name']}", f"equilibrium no longer constructs: {eqd['error']}")
            continue
        npins = 0
        for r in eqd["regions"]:
            for end in ("start", "end"):
                for k, p in enumerate(r[end]):
                    if p is None:
                        continue
                    n += 1
                    npins += 1
                    if k >= len(r["boundaries"]) or abs(p["psi"] - r["boundaries"][k]) > 1e-6 * r["scale"]:
                        chk.fail("pinned-corner:xpoint-not-on-this-surface", "a region pins the corners of a radial boundary to an X-point that does not lie on the flux surface of that boundary",
                                 {"equilibrium": eqd["name"], "double_null_type": eqd["double_null_type"], "region": r["name"], "end": end, "radial_boundary": k,
                                  "psi_at_xpoint": p["psi"], "psi_of_boundary": r["boundaries"][k] if k < len(r["boundaries"]) else None, "xpoint": [p["R"], p["Z"]]})
        seen[eqd["name"]] = npins
    chk.notes["pin_oracle"] = seen
    return n


def run(chk):
    info = translate(chk)
    chk.trust("translate/slices.py (literal slices of fillRZ, X-point pins, reverse/transpose/refine skeleton of MeshRegion.__init__ as source fingerprints)",
              "hand model theories/Model_Region.v of followPerpendicular's recursion, tied by correspondence on a closed-form field",
              "hand model theories/Model_Refine.v of refinePointNewton / refinePoint / getRefined, tied by a BIT-EXACT correspondence (PrimFloat instance evaluated by vm_compute) with the real methods on polynomial flux functions",
              "CONTRACT: the 'integrate' fallback (solve_ivp) and the line search (brentq) are parameters of the model; with the default refine_methods a point accepted through the integrate fallback carries no tolerance test (theorem C01_default_methods) -- monitored on every corpus grid: the psi residual IS the property oracle")
    chk.assume("convergence of the Newton iteration / solve_ivp is observed, not proved: the theorems say that what is ACCEPTED is within the tolerance and that the loop terminates")
    chk.coq()
    rng = random.Random(chk.seed)
    cases = follow_cases(rng, 150 if chk.tier == "quick" else 1500)
    rc, res, o, e = common.run_impl_json("impl/follow.py", dict(follow=cases), timeout=600)
    nf = 0
    if res is None:
        chk.tie_broken("impl/follow.py", f"implementation run failed rc={rc}: {(o + e)[-1000:]}")
    else:
        nf = check_follow(chk, cases, res["follow"])
        # the executable model on the same cases
        from fractions import Fraction
        q = lambda x: "(%d # %d)" % (Fraction(str(x)).numerator, Fraction(str(x)).denominator)
        items = ";\n".join(f"ok_case {q(c['psi0'])} [{'; '.join(q(v) for v in c['psivals'])}]" for c in cases[:200])
        text = ("From Coq Require Import QArith List Bool. Import ListNotations.\nFrom HT Require Import Model_Region.\nLocal Open Scope Q_scope.\n"
                "Fixpoint leq (a b : list Q) : bool := match a, b with [], [] => true | x :: s, y :: t => Qeq_bool x y && leq s t | _, _ => false end.\n"
                "Definition ok_case (c : Q) (l : list Q) : bool := match follow Q (fun x => x) 4 c l with Some r => leq r l | None => false end.\n"
                f"Definition rs := [\n{items}].\nEval vm_compute in (length (filter (fun b => b) rs), length rs).")
        rcq, oq, eq = common.coq_eval("cases_C01", text)
        m = re.search(r"\((\d+)(?:%nat)?,\s*(\d+)(?:%nat)?\)", oq.replace("\n", " "))
        if rcq != 0 or not m or m.group(1) != m.group(2):
            chk.tie_broken("model:follow", f"the executable model does not return psivals order on the generated cases: {(oq + eq)[-500:]}")
    nr = refine_correspondence(chk, 400 if chk.tier == "quick" else 3000)
    nr += pin_oracle(chk)
    nr += integrate_contract(chk, 200 if chk.tier == "quick" else 2000)
    # an upper disconnected double null whose inboard and outboard SOL limits differ (C01 only): the SOL segments of inner and outer regions have different psi grids
    extra = [corpus.tok("udn_solin", "udn", corpus.DN, options=dict(psinorm_sol_inner=1.1), must_build=True)]
    if chk.tier == "quick":      # both interpolation methods in the quick tier too
        extra.append(dict(corpus.CONFIGS["lsn_dct"], must_build=True))
    grids = corpus.get(tier=chk.tier, extra_cfgs=extra)
    n = grid_oracle(chk, grids, info)
    chk.count(evaluations=len(cases) + n + nr, distinct=nf + n + nr)
    chk.cov["rule"] = "followPerpendicular: random strictly monotone psivals (both directions, list or array) with psi0 at an end / inside / outside; grids: every point of every region at the four staggered locations"
    chk.notes["correspondence"] = {"follow_cases": len(cases), "follow_agree": nf, "grid_points_checked": n, "grids": [g.name for g in grids if g.ok]}
    chk.cov["traces_validated_against_impl"] = nf
    chk.sample({"follow_case": cases[0]})
    chk.sample({"grids": [g.name for g in grids]})
