"""C01 -- every grid point lies on its flux surface."""
import os
import random
import re

import numpy as np

import common
import corpus
from common import REPO, GEN

import pyir
import slices as tr

LEVEL = "proof"
LOCS = {"centre": "fill_centre", "xlow": "fill_xlow", "ylow": "fill_ylow", "corners": "fill_corners"}


def translate(chk):
    try:
        text, info = tr.emit(REPO)
    except (pyir.TranslationError, SyntaxError, OSError) as e:
        chk.tie_broken("translate/slices.py", f"structure fingerprint refused mesh.py: {e}")
        return None
    common.write_if_changed(os.path.join(GEN, "Gen_Slices.v"), text)
    return info


def follow_cases(rng, n):
    cases = []
    R0, Z0 = 1.2, 0.5
    psi0c = R0 * R0 + Z0 * Z0
    for _ in range(n):
        m = rng.randint(2, 9)
        vals = sorted({round(rng.uniform(0.3, 4.0), 3) for _ in range(m)} | {round(rng.uniform(4.1, 5), 3)})
        if rng.random() < 0.5:
            vals = vals[::-1]
        k = rng.random()
        # psi0 is fixed by the start point; shift the list so that psi0 is at an end / inside / outside
        if k < 0.25:
            shift = psi0c - vals[0]
        elif k < 0.4:
            shift = psi0c - vals[-1]
        elif k < 0.7:
            i = rng.randrange(len(vals) - 1)
            shift = psi0c - 0.5 * (vals[i] + vals[i + 1])
        elif k < 0.85:
            shift = psi0c + rng.uniform(0.01, 0.5) - min(vals)
        else:
            shift = psi0c - rng.uniform(0.01, 0.5) - max(vals)
        vals = [v + shift for v in vals]
        if min(vals) <= 0.05:
            continue
        cases.append(dict(psivals=vals, psi0=psi0c, R0=R0, Z0=Z0, as_array=rng.random() < 0.7))
    return cases


def check_follow(chk, cases, res):
    nok = 0
    for c, r in zip(cases, res):
        if isinstance(r, dict):
            chk.fail("followPerpendicular:raises", f"followPerpendicular raised on monotone psivals: {r['error']}", {"case": c})
            continue
        want = [(c["R0"] * (p / c["psi0"]) ** 0.5, c["Z0"] * (p / c["psi0"]) ** 0.5) for p in c["psivals"]]
        if len(r) != len(want):
            chk.fail("followPerpendicular:order", "followPerpendicular returns a different number of points than psivals", {"case": c, "n": len(r)})
            continue
        err = max(max(abs(a[0] - b[0]), abs(a[1] - b[1])) for a, b in zip(r, want))
        if err > 1e-7:
            swapped = sorted(map(tuple, r)) == sorted(want) if False else None
            chk.fail("followPerpendicular:points", "followPerpendicular does not return the points of the grad(psi) line at the requested psi values, in their order, to the requested tolerance (rtol=1e-10)",
                     {"case": c, "max_error": err, "got": r[:4], "expected": want[:4]})
        else:
            nok += 1
    return nok


def grid_oracle(chk, grids, info):
    n = 0
    worst = {}
    fill = info["fill"] if info else {"centre": (1, 1), "xlow": (0, 1), "ylow": (1, 0), "corners": (0, 0)}
    for g in grids:
        if not g.ok:
            chk.notes.setdefault("corpus_failed", []).append({"grid": g.name, "error": g.error.strip().splitlines()[-1][:200]})
            continue
        w = 0.0
        for rid, r in g.d["regions"].items():
            pv = r["psi_vals"]
            A = r["arrays"]
            scale = max(1.0, float(np.max(np.abs(pv))))
            tol = 1e-7 * scale
            for loc, (cs, ps) in fill.items():
                ev = r["interp"][loc]["psi"]
                want = pv[cs::2][:, None]
                resid = np.abs(ev - want)
                ok = np.ones_like(resid, dtype=bool)
                if loc == "corners":
                    ri = r["radialIndex"]
                    for (a, b), xp in (((0, 0), r["xPointsAtStart"][ri]), ((-1, 0), r["xPointsAtStart"][ri + 1]), ((0, -1), r["xPointsAtEnd"][ri]), ((-1, -1), r["xPointsAtEnd"][ri + 1])):
                        if xp is not None:
                            ok[a, b] = False
                            if abs(A["Rxy"]["corners"][a, b] - xp[0]) > 0 or abs(A["Zxy"]["corners"][a, b] - xp[1]) > 0:
                                chk.fail("pinned-corner", "a corner that should be pinned to the X-point is not at the X-point", {"grid": g.name, "region": r["name"], "corner": [a, b]})
                n += int(ok.sum())
                m = float(resid[ok].max()) if ok.any() else 0.0
                w = max(w, m / scale)
                if m > tol:
                    p = np.unravel_index(np.argmax(np.where(ok, resid, 0)), resid.shape)
                    chk.fail(f"off-surface:{loc}", f"psi at a {loc} grid point differs from the radial psi-grid value of its index by more than the refinement tolerance",
                             {"grid": g.name, "region": r["name"], "loc": loc, "index": [int(p[0]), int(p[1])], "psi_found": float(ev[p]), "psi_expected": float(want[p[0], 0]), "tol": tol})
                # the index map of the model: array entry (i, j) is point ps+2j of contour cs+2i
                # (the last ylow/corner column is overwritten by the upper neighbour's first in getRZBoundary)
                C = r["contours"]
                Rm = np.array([[C[cs + 2 * i]["points"][ps + 2 * j][0] for j in range(ev.shape[1])] for i in range(ev.shape[0])])
                cmpR = A["Rxy"][loc]
                sl = (slice(None), slice(None, -1)) if (loc in ("ylow", "corners") and r["connections"]["upper"] is not None) else (slice(None), slice(None))
                skip = ~ok if loc == "corners" else np.zeros_like(ok)
                if np.any((Rm[sl] != cmpR[sl]) & ~skip[sl]):
                    chk.tie_broken(f"index-map:{loc}", f"grid {g.name} region {r['name']}: array entries are not contours[{cs}+2i].points[{ps}+2j]")
            # psixy as stored
            for loc in ("centre", "xlow", "ylow"):
                if loc in A["psixy"]:
                    d = np.abs(A["psixy"][loc] - r["interp"][loc]["psi"]).max()
                    if d > 1e-14 * scale:
                        chk.fail("psixy", "psixy is not the interpolated psi at the grid point", {"grid": g.name, "region": r["name"], "loc": loc, "max_diff": float(d)})
        worst[g.name] = float(f"{w:.3g}")
    chk.notes["max_relative_psi_residual"] = worst
    return n


def run(chk):
    info = translate(chk)
    chk.trust("translate/slices.py (literal slices of fillRZ, X-point pins, reverse/transpose/refine skeleton of MeshRegion.__init__ as source fingerprints)",
              "hand model theories/Model_Region.v of followPerpendicular's recursion, tied by correspondence on a closed-form field",
              "CONTRACT: PsiContour.refine puts every point of a contour on its psi value within tolerance (monitored on every corpus grid: the psi residual IS the property oracle)")
    chk.assume("convergence of refinePoint / solve_ivp is observed, not proved")
    chk.coq()
    rng = random.Random(chk.seed)
    cases = follow_cases(rng, 150 if chk.tier == "quick" else 1500)
    rc, res, o, e = common.run_impl_json("impl/follow.py", dict(follow=cases), timeout=600)
    nf = 0
    if res is None:
        chk.tie_broken("impl/follow.py", f"implementation run failed rc={rc}: {(o + e)[-1000:]}")
    else:
        nf = check_follow(chk, cases, res["follow"])
        # the executable model on the same cases
        from fractions import Fraction
        q = lambda x: "(%d # %d)" % (Fraction(str(x)).numerator, Fraction(str(x)).denominator)
        items = ";\n".join(f"ok_case {q(c['psi0'])} [{'; '.join(q(v) for v in c['psivals'])}]" for c in cases[:200])
        text = ("From Coq Require Import QArith List Bool. Import ListNotations.\nFrom HT Require Import Model_Region.\nLocal Open Scope Q_scope.\n"
                "Fixpoint leq (a b : list Q) : bool := match a, b with [], [] => true | x :: s, y :: t => Qeq_bool x y && leq s t | _, _ => false end.\n"
                "Definition ok_case (c : Q) (l : list Q) : bool := match follow Q (fun x => x) 4 c l with Some r => leq r l | None => false end.\n"
                f"Definition rs := [\n{items}].\nEval vm_compute in (length (filter (fun b => b) rs), length rs).")
        rcq, oq, eq = common.coq_eval("cases_C01", text)
        m = re.search(r"\((\d+)(?:%nat)?,\s*(\d+)(?:%nat)?\)", oq.replace("\n", " "))
        if rcq != 0 or not m or m.group(1) != m.group(2):
            chk.tie_broken("model:follow", f"the executable model does not return psivals order on the generated cases: {(oq + eq)[-500:]}")
    grids = corpus.get(tier=chk.tier)
    n = grid_oracle(chk, grids, info)
    chk.count(evaluations=len(cases) + n, distinct=nf + n)
    chk.cov["rule"] = "followPerpendicular: random strictly monotone psivals (both directions, list or array) with psi0 at an end / inside / outside; grids: every point of every region at the four staggered locations"
    chk.notes["correspondence"] = {"follow_cases": len(cases), "follow_agree": nf, "grid_points_checked": n, "grids": [g.name for g in grids if g.ok]}
    chk.cov["traces_validated_against_impl"] = nf
    chk.sample({"follow_case": cases[0]})
    chk.sample({"grids": [g.name for g in grids]})
