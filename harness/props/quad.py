"""Correspondence between theories/Model_Quadrature.v (PrimFloat instance, vm_compute) and the real FineContour.calcDistance /
reverse / getDistance, PsiContour.get_distance and MeshRegion.calcZShift (impl/quadrature.py).  Used by C05 (distance kinds) and
C06 (zShift chains, which exercise the whole pipeline).  Outcomes must agree bit for bit."""
import math
import random
import re

import common

hx = lambda x: float(x).hex()


def fine_curve(rng, nf):
    """points of a smooth, gently curved polyline with uneven spacing (never two equal consecutive points)"""
    R0, Z0 = rng.uniform(1.0, 3.0), rng.uniform(-1.0, 1.0)
    a, b = rng.uniform(0.3, 1.0), rng.uniform(0.3, 1.0)
    th0, span = rng.uniform(0, 6.28), rng.uniform(0.3, 2.5) * rng.choice([1, -1])
    ts = sorted(rng.uniform(0, 1) for _ in range(nf))
    ts = [t + 1e-3 * i for i, t in enumerate(ts)]
    if rng.random() < 0.2:      # a straight stretch
        dR, dZ = math.cos(th0), math.sin(th0)
        return [(R0 + t * dR, Z0 + t * dZ) for t in ts]
    return [(R0 + a * math.cos(th0 + span * t), Z0 + b * math.sin(th0 + span * t)) for t in ts]


def contour_points(rng, pos, si, ei, npts, off_scale):
    """npts points strung along the polyline from fine point si to fine point ei (both included), some exactly on fine
    points, some slightly off the polyline"""
    us = sorted(rng.uniform(si, ei) for _ in range(npts - 2))
    us = [float(si)] + us + [float(ei)]
    pts = []
    us = [float(round(u)) if 0 < m < npts - 1 and rng.random() < 0.2 else u for m, u in enumerate(us)]
    us = sorted(us)
    for m in range(1, npts - 1):            # strictly increasing parameters
        if not us[m - 1] < us[m] < us[-1]:
            us[m] = us[m - 1] + (us[-1] - us[m - 1]) * rng.uniform(0.2, 0.6)
    for m, u in enumerate(us):
        j = min(int(u), len(pos) - 2)
        f = u - j
        R = pos[j][0] + f * (pos[j + 1][0] - pos[j][0])
        Z = pos[j][1] + f * (pos[j + 1][1] - pos[j][1])
        if 0 < m < npts - 1 and f not in (0.0, 1.0) and rng.random() < 0.5:
            tR, tZ = pos[j + 1][0] - pos[j][0], pos[j + 1][1] - pos[j][1]
            nrm = math.hypot(tR, tZ)
            o = rng.uniform(-off_scale, off_scale) * nrm
            R, Z = R - o * tZ / nrm, Z + o * tR / nrm
        pts.append((R, Z))
    # keep the order strictly increasing along the curve (drop accidental duplicates by nudging)
    return pts


def gen_cases(rng, n, kinds):
    cases = []
    for i in range(n):
        kind = kinds[i % len(kinds)]
        nf = rng.choice([2, 3, 5, 8, 13, 20])
        pos = fine_curve(rng, nf)
        if kind == "distance":
            si = rng.randrange(0, max(1, nf // 3))
            ei = rng.randrange(max(si, nf - 1 - nf // 3), nf)
            cases.append(dict(kind=kind, pos=[[hx(a), hx(b)] for a, b in pos], si=si, ei=ei))
        elif kind == "interp":
            si = rng.randrange(0, max(1, nf // 3))
            # distances from startInd: inside the contour, exactly at fine points (computed later by the implementation: here by the chord sums), beyond both ends
            cum = [0.0]
            for k in range(nf - 1):
                cum.append(cum[-1] + math.hypot(pos[k + 1][0] - pos[k][0], pos[k + 1][1] - pos[k][1]))
            tot = cum[-1] - cum[si]
            svals = [rng.uniform(-cum[si], tot) for _ in range(5)] + [cum[rng.randrange(nf)] - cum[si], -cum[si] - rng.uniform(0.01, 0.2), tot + rng.uniform(0.01, 0.2), 0.0]
            cases.append(dict(kind=kind, pos=[[hx(a), hx(b)] for a, b in pos], si=si, s=[hx(v) for v in svals]))
        elif kind == "equalise":
            # sizes on both sides of 8 and of 128 spacings: numpy.mean sums pairwise (all three regimes of the model)
            nfine = rng.choice([3, 4, 6, 9, 17, 40, 100, 140]) if i % 4 else rng.choice([100, 127, 129, 135])
            el = rng.choice([0, 0, 1, 3])
            eu = rng.choice([0, 0, 1, 3])
            pc = fine_curve(rng, nfine + el + eu)
            atol = rng.choice([1e-3, 1e-6, 1e-9, 1e-12, 1e-16])
            maxits = rng.choice([1, 2, 5, 9, 12, 30])
            cases.append(dict(kind=kind, pos=[[hx(a), hx(b)] for a, b in pc], nfine=nfine, el=el, atol=hx(atol), maxits=maxits, damping=hx(rng.choice([0.8, 0.5, 1.0]))))
        elif kind == "sperp":
            si = rng.randrange(0, nf)
            ei = rng.randrange(si, nf)
            ang = rng.uniform(0, 6.283)
            vec = (math.cos(ang) * rng.choice([1.0, 0.3, 2.0]), math.sin(ang) * rng.choice([1.0, 0.3, 2.0]))
            xs = [rng.uniform(-0.5, 1.0) for _ in range(5)] + [0.0]
            cases.append(dict(kind=kind, pos=[[hx(a), hx(b)] for a, b in pos], si=si, ei=ei, vec=[hx(vec[0]), hx(vec[1])], x=[hx(v) for v in xs]))
        elif kind == "getdist":
            pts = []
            for _ in range(6):
                k = rng.random()
                j = rng.randrange(nf)
                if k < 0.25:
                    p = pos[j]                                   # exactly a fine point
                elif k < 0.5 and nf > 2:
                    # as close to fine point j as to a neighbour's segment: the closest_approach comparison decides
                    j = rng.randrange(1, nf - 1)
                    tR, tZ = pos[j + 1][0] - pos[j - 1][0], pos[j + 1][1] - pos[j - 1][1]
                    o = rng.uniform(-0.02, 0.02)
                    p = (pos[j][0] - o * tZ, pos[j][1] + o * tR)
                else:
                    p = contour_points(rng, pos, 0, nf - 1, 3, 0.05)[1]
                pts.append(p)
            cases.append(dict(kind=kind, pos=[[hx(a), hx(b)] for a, b in pos], pts=[[hx(a), hx(b)] for a, b in pts]))
        else:
            nreg = rng.choice([1, 1, 2, 3])
            periodic = rng.random() < 0.4
            regs = []
            for _ in range(nreg):
                ny = rng.choice([1, 2, 3, 5])
                cts = []
                for _ in range(3):
                    nfc = rng.choice([4, 6, 9, 14, 22])
                    pc = fine_curve(rng, nfc)
                    si = rng.randrange(0, max(1, nfc // 4))
                    ei = rng.randrange(max(si + 1, nfc - 1 - nfc // 4), nfc)
                    pts = contour_points(rng, pc, si, ei, 2 * ny + 1, 1e-4)
                    if rng.random() < 0.04 and ny > 1:   # two contour points exchanged: get_distance refuses
                        pts[1], pts[2] = pts[2], pts[1]
                    if rng.random() < 0.04:        # a contour point beyond the end of the fine contour: interp1d refuses
                        pts[-1] = (2 * pc[-1][0] - pc[-2][0], 2 * pc[-1][1] - pc[-2][1])
                        if ei != nfc - 1:
                            pts[-1] = pc[-1]
                    A = [rng.uniform(0.5, 2.0) * rng.choice([1, 1, -1]) for _ in range(nfc)]
                    B = [rng.uniform(-1, 1) for _ in range(nfc)]
                    C = [rng.uniform(0.1, 1) for _ in range(nfc)]
                    pitch = None
                    if rng.random() < 0.3:      # uniform pitch Bt/(R Bp) = c along this contour
                        pitch = rng.uniform(0.5, 3.0) * rng.choice([1, -1])
                        A = [pitch * a * a for a, b in pc]
                        B = [0.0] * nfc
                        C = [1.0] * nfc
                    cts.append(dict(pos=[[hx(a), hx(b)] for a, b in pc], si=si, ei=ei, pts=[[hx(a), hx(b)] for a, b in pts],
                                    A=[hx(x) for x in A], B=[hx(x) for x in B], C=[hx(x) for x in C], pitch=pitch))
                regs.append(dict(ny=ny, contours=cts))
            cases.append(dict(kind=kind, periodic=periodic, regions=regs))
    return cases


HEADER = ("From Coq Require Import ZArith List Bool PrimFloat.\nFrom HT Require Import Field Model_Quadrature Model_Sperp Model_Equalise.\nImport ListNotations.\n"
          "Local Open Scope float_scope.\n"
          "Fixpoint leq (a b : list float) : bool := match a, b with [], [] => true | x :: s, y :: t => PrimFloat.eqb x y && leq s t | _, _ => false end.\n"
          "Fixpoint lleq (a b : list (list float)) : bool := match a, b with [], [] => true | x :: s, y :: t => leq x y && lleq s t | _, _ => false end.\n"
          "Definition k_distance (pos : list (float * float)) (d r : list float) (tot : float) (si ei : nat) : bool :=\n"
          "  let m := calc_distance Fops pos in leq m d && leq (rev_distance Fops m) r && PrimFloat.eqb (nth ei m 0 - nth si m 0) tot.\n"
          "Definition k_getdist (pos pts : list (float * float)) (v : list float) : bool :=\n"
          "  leq (map (get_distance Fops pos (calc_distance Fops pos)) pts) v.\n"
          "Definition k_interp (pos : list (float * float)) (si : nat) (ss : list float) (pts : list (float * float)) (back : list float) : bool :=\n"
          "  let d := calc_distance Fops pos in let q := map (interp_point Fops pos d si) ss in\n"
          "  leq (map fst q) (map fst pts) && leq (map snd q) (map snd pts) && leq (map (get_distance Fops pos d) q) back.\n"
          "Definition k_sperp (pos : list (float * float)) (si ei : nat) (vec : float * float) (xs sp : list float) (tot : float) (vals : list float) : bool :=\n"
          "  let m := s_perp Fops pos si vec in\n"
          "  leq m sp && PrimFloat.eqb (s_perp_total Fops m si ei) tot && leq (map (s_of_sperp Fops m (calc_distance Fops pos) si) xs) vals.\n"
          "Definition k_equalise (pos : list (float * float)) (atol damping : float) (maxits nfine el : nat) (res : list (float * float)) (warned : bool) : bool :=\n"
          "  let r := equalise Fops (fun p => p) atol damping maxits nfine el el (nfine - 1 + el) pos in\n"
          "  leq (map fst (fst r)) (map fst res) && leq (map snd (fst r)) (map snd res) && Bool.eqb (snd r) warned.\n"
          "Fixpoint ys4 (A : list float) (pos : list (float * float)) (B C : list float) : list float :=\n"
          "  match A, pos, B, C with a :: A', p :: pos', b :: B', c :: C' => integrand Fops a (fst p) b c :: ys4 A' pos' B' C' | _, _, _, _ => [] end.\n"
          "Definition mkseg (pos pts : list (float * float)) (si : nat) (A B C : list float) : @seg float :=\n"
          "  let fd := calc_distance Fops pos in mkSeg (ys4 A pos B C) fd si (map (get_distance Fops pos fd) pts).\n")


def _pl(pts):
    fl = lambda h: common.fhex(float.fromhex(h))
    return "[" + "; ".join(f"({fl(a)}, {fl(b)})" for a, b in pts) + "]"


def _fl(xs):
    return "[" + "; ".join(common.fhex(float.fromhex(x)) for x in xs) + "]"


def _interleave(a, b):
    out = []
    for i in range(len(a)):
        out.append(a[i])
        if i < len(b):
            out.append(b[i])
    return out


def impl_distance_props(chk, c, r):
    """the statements of C05_distance_* evaluated on what the real calcDistance / reverse returned"""
    pos = [(float.fromhex(a), float.fromhex(b)) for a, b in c["pos"]]
    d = [float.fromhex(x) for x in r["distance"]]
    rv = [float.fromhex(x) for x in r["rev"]]
    bad = None
    if len(d) != len(pos) or d[0] != 0.0:
        bad = "does not start at 0 / wrong length"
    else:
        for k in range(len(pos) - 1):
            seg = math.hypot(pos[k + 1][0] - pos[k][0], pos[k + 1][1] - pos[k][1])
            if abs((d[k + 1] - d[k]) - seg) > 1e-13 * max(1.0, d[-1]):
                bad = f"increment {k} is not the segment length"
        i, j = 0, len(pos) - 1
        if math.hypot(pos[j][0] - pos[i][0], pos[j][1] - pos[i][1]) > d[j] - d[i] + 1e-13:
            bad = "shorter than the chord between its ends"
    if bad:
        chk.fail("distance:not-polygon-length", "FineContour.calcDistance: " + bad, {"case": c, "got": r["distance"]})
    # reverse: the cache after reverse() equals the distance recomputed on the reversed points, up to rounding
    rec = [0.0]
    for k in range(len(pos) - 1, 0, -1):
        rec.append(rec[-1] + math.hypot(pos[k][0] - pos[k - 1][0], pos[k][1] - pos[k - 1][1]))
    if len(rv) != len(rec) or any(abs(a - b) > 1e-12 * max(1.0, rec[-1]) for a, b in zip(rv, rec)):
        chk.fail("distance:stale-after-reverse", "FineContour.reverse leaves a cached distance that is not the distance along the reversed points", {"case": c, "got": r["rev"]})


def impl_interp_props(chk, c, r):
    """C05_placed_point_*: a point placed at distance s inside the contour lies on the polygon, and getDistance gives s back (up to the bend of the polygon)"""
    pos = [(float.fromhex(a), float.fromhex(b)) for a, b in c["pos"]]
    cum = [0.0]
    for k in range(len(pos) - 1):
        cum.append(cum[-1] + math.hypot(pos[k + 1][0] - pos[k][0], pos[k + 1][1] - pos[k][1]))
    d_si = float.fromhex(r["dist_si"])
    for sv, (R, Z, back) in zip(c["s"], r["points"]):
        s_, R, Z, back = float.fromhex(sv), float.fromhex(R), float.fromhex(Z), float.fromhex(back)
        if not (-cum[c["si"]] <= s_ <= cum[-1] - cum[c["si"]]):
            continue
        # distance of the point from the polygon
        best = 1e9
        for k in range(len(pos) - 1):
            ax, ay = pos[k]
            bx, by = pos[k + 1]
            L2 = (bx - ax) ** 2 + (by - ay) ** 2
            t = min(1.0, max(0.0, ((R - ax) * (bx - ax) + (Z - ay) * (by - ay)) / L2))
            best = min(best, math.hypot(R - ax - t * (bx - ax), Z - ay - t * (by - ay)))
        if best > 1e-12:
            chk.fail("interp:point-off-the-contour", "FineContour.interpFunction places a point that is not on the polygon through the fine points", {"case": c, "s": s_, "point": [R, Z], "distance_from_polygon": best})
            return
        # measured back (C05_placed_point_distance_round_trip): exactly s when the two fine points getDistance selects are the ends of the segment the
        # point was placed on -- on a sharply bent polygon another fine point can be nearer, and the theorem (and this test) say nothing then
        dists = [math.hypot(R - a, Z - b) for a, b in pos]
        i1 = min(range(len(pos)), key=lambda k: (dists[k], k))

        def ca(a, b):
            mx, my = b[0] - a[0], b[1] - a[1]
            t0 = (mx * (R - a[0]) + my * (Z - a[1])) / (mx * mx + my * my)
            t0 = min(1.0, max(0.0, t0))
            return math.hypot(R - a[0] - t0 * mx, Z - a[1] - t0 * my)
        if i1 + 1 >= len(pos):
            i2 = i1 - 1
        elif i1 == 0:
            i2 = 1
        else:
            i2 = i1 + 1 if ca(pos[i1], pos[i1 + 1]) < ca(pos[i1], pos[i1 - 1]) else i1 - 1
        lo = max(k for k in range(len(pos) - 1) if cum[k] - cum[c["si"]] <= s_ + 1e-15) if s_ >= -cum[c["si"]] else 0
        lo = min(lo, len(pos) - 2)
        if {i1, i2} != {lo, lo + 1}:
            continue
        seg = max(cum[k + 1] - cum[k] for k in range(len(pos) - 1))
        if abs((back - d_si) - s_) > 1e-9 * seg + 1e-13:
            chk.fail("interp:distance-round-trip", "the distance getDistance measures for a point placed by interpFunction at distance s is not s", {"case": c, "s": s_, "measured": back - d_si})
            return


def impl_zshift_props(chk, c, r, exp):
    """the statements of C06_uniform_pitch_exact / C06_continuous_at_joins evaluated on what the real calcZShift returned"""
    for i in range(3):
        base = 0.0
        for k, rg in enumerate(c["regions"]):
            vals = [float.fromhex(x) for x in exp[i][k]]
            cd = [float.fromhex(x) for x in r["regions"][k]["cdist"][i]]
            if abs(vals[0] - base) > 1e-12 * max(1.0, abs(base)):
                chk.fail("zShift:jump-at-join:stub", "calcZShift: a region of a y-group does not start from the value at the last y-face of the region before it",
                         {"case": c, "contour": i, "region": k, "first": vals[0], "handed_over": base})
            pitch = rg["contours"][i].get("pitch")
            if pitch is not None and len(cd) == len(vals):
                for m in range(len(vals)):
                    want = base + pitch * (cd[m] - cd[0])
                    if abs(vals[m] - want) > 1e-11 * max(1.0, abs(want)):
                        chk.fail("zShift:uniform-pitch", "calcZShift: with a uniform pitch Bt/(R Bp) zShift is not pitch times poloidal distance from the start of the region",
                                 {"case": c, "contour": i, "region": k, "point": m, "zShift": vals[m], "expected": want})
                        break
            base = vals[-1] if len(vals) % 2 == 1 else vals[-2]


def correspondence(chk, n, kinds, tag):
    rng = random.Random(chk.seed + 707 + len(tag))
    cases = gen_cases(rng, n, kinds)
    rc, res, o, e = common.run_impl_json("impl/quadrature.py", dict(cases=cases), timeout=900)
    if res is None or len(res) != len(cases):
        chk.tie_broken("impl/quadrature.py", f"implementation run failed rc={rc}: {(o + e)[-1000:]}")
        return 0
    items, stats = [], {}
    for c, r in zip(cases, res):
        if r.get("error") == "unexpected":
            chk.tie_broken("impl/quadrature.py:case", f"unexpected exception {r['detail']} on a {c['kind']} case")
            items.append("false")
            continue
        key = c["kind"] + (":refused" if "error" in r else "")
        stats[key] = stats.get(key, 0) + 1
        if c["kind"] == "distance":
            n_ = len(c["pos"])
            if r["rev_inds"] != [n_ - 1 - c["ei"], n_ - 1 - c["si"]] or r["rev_pos"] != [list(p) for p in reversed(c["pos"])]:
                chk.fail("reverse:indices", "FineContour.reverse does not reverse the positions / exchange startInd and endInd", {"case": c, "got": r})
            impl_distance_props(chk, c, r)
            items.append(f"k_distance {_pl(c['pos'])} {_fl(r['distance'])} {_fl(r['rev'])} {common.fhex(float.fromhex(r['total']))} {c['si']}%nat {c['ei']}%nat")
        elif c["kind"] == "interp":
            impl_interp_props(chk, c, r)
            items.append(f"k_interp {_pl(c['pos'])} {c['si']}%nat {_fl(c['s'])} {_pl([p[:2] for p in r['points']])} {_fl([p[2] for p in r['points']])}")
        elif c["kind"] == "equalise":
            pos0 = [(float.fromhex(a), float.fromhex(b)) for a, b in c["pos"]]
            got = [(float.fromhex(a), float.fromhex(b)) for a, b in r["positions"]]
            si_, ei_ = c["el"], c["nfine"] - 1 + c["el"]
            if got[si_] != pos0[si_] or got[ei_] != pos0[ei_]:
                chk.fail("equalise:end-points-moved", "FineContour.equaliseSpacing moved the point at startInd or endInd", {"case": c, "got": r["positions"]})
            dd = [float.fromhex(v) for v in r["distance"]]
            rec = [0.0]
            for (a0, b0), (a1, b1) in zip(got[:-1], got[1:]):
                rec.append(rec[-1] + math.hypot(a1 - a0, b1 - b0))
            if len(rec) != len(dd) or any(abs(x - y) > 1e-12 * max(1.0, rec[-1]) for x, y in zip(rec, dd)):
                chk.fail("equalise:stale-distance", "after FineContour.equaliseSpacing the cached distance is not the distance along the final positions", {"case": c, "distance": r["distance"]})
            ds = [b - a for a, b in zip(dd[:-1], dd[1:])]
            err = max(abs(x - sum(ds) / len(ds)) for x in ds)
            if not r["warned"] and err > float.fromhex(c["atol"]) * (1 + 1e-9) + 1e-18:
                chk.fail("equalise:accepted-unequal-spacing", "FineContour.equaliseSpacing stopped without a warning although the spacing differs by more than finecontour_atol", {"case": c, "ds_error": err})
            if r["refine_calls"] > c["maxits"] + 1:
                chk.fail("equalise:too-many-rounds", "FineContour.equaliseSpacing ran more rounds than finecontour_maxits allows", {"case": c, "refine_calls": r["refine_calls"]})
            stats["equalise:warned" if r["warned"] else "equalise:converged"] = stats.get("equalise:warned" if r["warned"] else "equalise:converged", 0) + 1
            items.append(f"k_equalise {_pl(c['pos'])} {common.fhex(float.fromhex(c['atol']))} {common.fhex(float.fromhex(c['damping']))} {c['maxits']}%nat {c['nfine']}%nat {c['el']}%nat {_pl(r['positions'])} {'true' if r['warned'] else 'false'}")
        elif c["kind"] == "sperp":
            sp = [float.fromhex(v) for v in r["s_perp"]]
            pp = [(float.fromhex(a), float.fromhex(b)) for a, b in c["pos"]]
            vx, vy = float.fromhex(c["vec"][0]), float.fromhex(c["vec"][1])
            raw = [(-vy * (q[0] - pp[c["si"]][0]) + vx * (q[1] - pp[c["si"]][1])) for q in pp]
            if any(b < a for a, b in zip(raw[c["si"]:-1], raw[c["si"] + 1:])) or any(b < a for a, b in zip(raw[:c["si"]], raw[1:c["si"] + 1])):
                stats["sperp:reflected"] = stats.get("sperp:reflected", 0) + 1
            if any(b < a for a, b in zip(sp[:-1], sp[1:])) or sp[c["si"]] != 0.0:
                chk.fail("sperp:not-monotone", "the perpendicular distance FineContour.interpSSperp interpolates on is not non-decreasing along the contour / not zero at startInd", {"case": c, "s_perp": sp})
            items.append(f"k_sperp {_pl(c['pos'])} {c['si']}%nat {c['ei']}%nat {_pl([c['vec']])[1:-1]} {_fl(c['x'])} {_fl(r['s_perp'])} {common.fhex(float.fromhex(r['total']))} {_fl(r['values'])}")
        elif c["kind"] == "getdist":
            items.append(f"k_getdist {_pl(c['pos'])} {_pl(c['pts'])} {_fl(r['values'])}")
        else:
            segs = []
            for i in range(3):
                segs.append("[" + "; ".join(
                    f"mkseg {_pl(rg['contours'][i]['pos'])} {_pl(rg['contours'][i]['pts'])} {rg['contours'][i]['si']}%nat {_fl(rg['contours'][i]['A'])} {_fl(rg['contours'][i]['B'])} {_fl(rg['contours'][i]['C'])}"
                    for rg in c["regions"]) + "]")
            if "error" in r:
                items.append("(match zshift_chain Fops 0 " + segs[0] + ", zshift_chain Fops 0 " + segs[1] + ", zshift_chain Fops 0 " + segs[2] +
                             " with Some _, Some _, Some _ => false | _, _, _ => true end)")
                continue
            exp = []
            for i in range(3):
                per = []
                for rr in r["regions"]:
                    if i == 0:
                        per.append(_interleave(rr["corners"][0], rr["xlow"][0]))
                    elif i == 1:
                        per.append(_interleave(rr["ylow"], rr["centre"]))
                    else:
                        per.append(_interleave(rr["corners"][1], rr["xlow"][1]))
                exp.append(per)
            parts = []
            for i in range(3):
                e_ = "[" + "; ".join(_fl(v) for v in exp[i]) + "]"
                sa = ""
                if c["periodic"]:
                    want = r["ShiftAngle"]["xlow"][0 if i == 0 else 1] if i != 1 else r["ShiftAngle"]["centre"][0]
                    sa = f" && PrimFloat.eqb (shift_angle Fops v) {common.fhex(float.fromhex(want))}"
                parts.append(f"(match zshift_chain Fops 0 {segs[i]} with Some v => lleq v {e_}{sa} | None => false end)")
            impl_zshift_props(chk, c, r, exp)
            if not c["periodic"] and any(r["ShiftAngle_set"]):
                chk.fail("ShiftAngle:set-on-open-chain", "calcZShift set ShiftAngle for a y-group that is not periodic", {"case": c, "got": r["ShiftAngle_set"]})
            if not r["later_untouched"]:
                chk.fail("ShiftAngle:set-on-later-region", "calcZShift set ShiftAngle on a region that is not the first of its y-group", {"case": c})
            items.append(" && ".join(parts))
    text = (HEADER +
            "Definition rs : list bool := [\n" + ";\n".join(items) + "].\n"
            "Eval vm_compute in (length (filter (fun b => b) rs), length rs).\n"
            "Eval vm_compute in (map fst (filter (fun x => negb (snd x)) (combine (seq 0 (length rs)) rs))).\n")
    rcq, oq, eq = common.coq_eval(f"cases_{chk.prop}_quadrature", text)
    m = re.search(r"\((\d+)(?:%nat)?,\s*(\d+)(?:%nat)?\)", oq.replace("\n", " "))
    agree = int(m.group(1)) if m else 0
    if rcq != 0 or not m or m.group(1) != m.group(2):
        bad = re.findall(r"\d+", oq.split("=")[-1])[:3] if m else []
        examples = [dict(case=cases[int(b)], implementation=res[int(b)]) for b in bad if int(b) < len(cases)]
        chk.tie_broken("model:quadrature", f"model (PrimFloat) and implementation disagree on {len(items) - agree} of {len(items)} {tag} cases: {(oq + eq)[-400:]}")
        chk.notes["quadrature_disagreements"] = examples
    chk.notes["quadrature_correspondence"] = {"cases": len(cases), "agree": agree, "outcomes": stats}
    return cases, res, agree
