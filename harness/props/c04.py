"""C04 -- orthogonal grids follow grad(psi)."""
import random

import numpy as np
from scipy.integrate import solve_ivp
from scipy.interpolate import RectBivariateSpline

import common
import corpus
from props import c01

LEVEL = "proof"


def translate(chk):
    return c01.translate(chk)


def reference_curve(spl, p0, psis):
    """integrate dX/dpsi = grad psi / |grad psi|^2 from p0 (independent of hypnotoad's f_R, f_Z) to each psi value"""
    psi0 = float(spl(p0[0], p0[1], grid=False))

    def f(psi, x):
        a = float(spl(x[0], x[1], dx=1, grid=False))
        b = float(spl(x[0], x[1], dy=1, grid=False))
        m = a * a + b * b
        return [a / m, b / m]

    out = np.full((len(psis), 2), np.nan)
    for sgn in (1, -1):
        idx = [k for k, p in enumerate(psis) if (p - psi0) * sgn > 0]
        if not idx:
            continue
        idx.sort(key=lambda k: abs(psis[k] - psi0))
        ts = [psis[k] for k in idx]
        sol = solve_ivp(f, (psi0, ts[-1]), list(p0), t_eval=ts, method="DOP853", rtol=1e-10, atol=1e-12)
        if sol.success and sol.y.shape[1] == len(ts):
            out[idx, :] = sol.y.T
    for k, p in enumerate(psis):
        if p == psi0:
            out[k] = p0
    return out


def run(chk):
    info = c01.translate(chk)
    chk.trust("translate/slices.py fingerprints; hand model theories/Model_Region.v",
              "CONTRACT: solve_ivp integrates grad(psi)/|grad(psi)|^2 to the requested tolerance and refine moves points along grad(psi) (monitored: independent DOP853 re-integration through an independently built spline)")
    chk.assume("second-order alignment of the radial direction with grad(psi) is a consequence of lying on one integral curve; it is monitored, not proved")
    chk.coq()
    rng = random.Random(chk.seed)
    # ---- field functions of equilibria in boxes of several aspect ratios vs an independent spline
    boxes = []
    for (rmin, rmax, zmin, zmax) in [(1.0, 2.0, -0.7, 0.7), (0.1, 1.1, -1.75, 1.75), (0.5, 3.5, -0.4, 0.4), (1.0, 2.0, 1.0, 3.2), (0.2, 0.9, -2.5, -0.1)]:
        pts = [(rng.uniform(rmin, rmax), rng.uniform(zmin, zmax)) for _ in range(60)]
        pts += [(rmin + 1e-9, zmax - 1e-9), (rmax - 1e-9, zmax - 1e-9), (rmax - 1e-9, zmin + 1e-9), (0.5 * (rmin + rmax), zmax - 0.01 * (zmax - zmin))]
        boxes.append(dict(rmin=rmin, rmax=rmax, zmin=zmin, zmax=zmax, nr=33, nz=41, rc=0.5 * (rmin + rmax), zc=0.5 * (zmin + zmax) + 0.1 * (zmax - zmin),
                          w=0.35 * min(rmax - rmin, zmax - zmin), sign=rng.choice([1.0, -1.0]), method="spline", points=pts))
    fcases = c01.follow_cases(rng, 150 if chk.tier == "quick" else 1500)
    rc, res, o, e = common.run_impl_json("impl/follow.py", dict(fields=boxes, follow=fcases), timeout=600)
    nfield = 0
    if res is not None:
        nfield += c01.check_follow(chk, fcases, res["follow"])
    if res is None:
        chk.tie_broken("impl/follow.py", f"implementation run failed rc={rc}: {(o + e)[-1000:]}")
    else:
        for b, r in zip(boxes, res["fields"]):
            if "error" in r:
                chk.notes.setdefault("boxes_refused", []).append(r["error"][:150])
                continue
            spl = RectBivariateSpline(np.linspace(b["rmin"], b["rmax"], b["nr"]), np.linspace(b["zmin"], b["zmax"], b["nz"]), np.array(r["psi2d"]))
            P = np.array(b["points"])
            a, c = spl(P[:, 0], P[:, 1], dx=1, grid=False), spl(P[:, 0], P[:, 1], dy=1, grid=False)
            m = a * a + c * c
            for name, ref in (("f_R", a / m), ("f_Z", c / m), ("psi", spl(P[:, 0], P[:, 1], grid=False)), ("Bp_R", c / P[:, 0]), ("Bp_Z", -a / P[:, 0])):
                got = np.array(r[name])
                err = np.abs(got - ref) / (1e-12 + np.abs(ref))
                nfield += len(got)
                if err.max() > 1e-9:
                    k = int(err.argmax())
                    chk.fail(f"field-function:{name}", f"equilibrium.{name} is not the corresponding derivative of the psi interpolant",
                             {"box": {kk: b[kk] for kk in ("rmin", "rmax", "zmin", "zmax")}, "point": b["points"][k], "got": float(got[k]), "expected": float(ref[k])})
    # ---- grids: every point lies on the integral curve of grad psi through its skeleton point
    # a member with a loose point-refinement tolerance and the default integration tolerances: refinement moves points ALONG grad(psi) only, so the
    # radial grid lines must follow grad(psi) just as closely as with the default
    extra = [corpus.tok("lsn_loose_refine", "lsn", corpus.SN, options=dict(refine_atol=1.0e-4), must_build=True)]
    grids = [g for g in corpus.get(tier=chk.tier, extra_cfgs=extra)]
    n = 0
    worst = {}
    sideways = {}
    wseg = 0.0
    for g in grids:
        if not g.ok or g.cfg["kind"] != "tokamak" or not g.d["mesh"]["user_options"].get("orthogonal", True):
            continue
        if g.d["mesh"]["user_options"].get("psi_interpolation_method", "spline") != "spline":
            continue
        I = g.d["inputs"]
        from props import c03
        spl = RectBivariateSpline(I["r1d"], I["z1d"], c03.effective_inputs(g)[0])
        w = 0.0
        for rid, r in g.d["regions"].items():
            pv = r["psi_vals"]
            skel = r["eqreg_points"]
            C = r["contours"]
            npts = len(C[0]["points"])
            if len(skel) != npts:
                chk.tie_broken("skeleton-size", f"grid {g.name} region {r['name']}: skeleton has {len(skel)} points but contours have {npts}")
                continue
            step = 1 if chk.tier == "thorough" else max(1, npts // 6)
            for pj in sorted(set(list(range(0, npts, step)) + [0, npts - 1])):
                ref = reference_curve(spl, skel[pj], list(pv))
                got = np.array([C[ci]["points"][pj] for ci in range(len(pv))])
                d = np.hypot(*(got - ref).T)
                ok = np.isfinite(d)
                n += int(ok.sum())
                if ok.any():
                    w = max(w, float(d[ok].max()))
                    # the part of the deviation ACROSS grad(psi) (what the integration of the radial line is responsible for; point refinement
                    # moves points along grad(psi) only)
                    gR, gZ = spl(ref[:, 0], ref[:, 1], dx=1, grid=False), spl(ref[:, 0], ref[:, 1], dy=1, grid=False)
                    gm = np.hypot(gR, gZ)
                    side = np.abs((got[:, 0] - ref[:, 0]) * (-gZ) + (got[:, 1] - ref[:, 1]) * gR) / np.where(gm > 0, gm, np.nan)
                    if np.isfinite(side[ok]).any():
                        sideways[g.name] = max(sideways.get(g.name, 0.0), float(np.nanmax(side[ok])))
                    if d[ok].max() > 2e-5:
                        ci = int(np.nanargmax(np.where(ok, d, 0)))
                        chk.fail("off-curve", "a grid point is not on the integral curve of grad(psi) through its skeleton point (orthogonal grid)",
                                 {"grid": g.name, "region": r["name"], "poloidal_point_index": pj, "radial_contour_index": ci, "distance_m": float(d[ci]),
                                  "point": got[ci].tolist(), "reference": ref[ci].tolist()})
            # metric side of orthogonality
            for nm in ("g12", "g13", "g_12", "g_13"):
                if any(np.any(v != 0) for v in r["arrays"][nm].values()):
                    chk.fail("g12-nonzero", f"{nm} is not identically zero on an orthogonal grid", {"grid": g.name, "region": r["name"]})
        # the radial segments of one equilibrium region (private flux / SOL side of a leg, core / SOL of the main plasma) continue ONE radial grid line across
        # the separatrix: they are integral curves through the SAME skeleton point, so the x-faces and corners on their shared flux surface coincide
        byseg = {(r["eqname"], r["radialIndex"]): r for r in g.d["regions"].values()}
        for (nm, k), r in byseg.items():
            nxt = byseg.get((nm, k + 1))
            if nxt is None:
                continue
            for loc in ("xlow", "corners"):
                a = np.stack([r["arrays"]["Rxy"][loc][-1, :], r["arrays"]["Zxy"][loc][-1, :]])
                b = np.stack([nxt["arrays"]["Rxy"][loc][0, :], nxt["arrays"]["Zxy"][loc][0, :]])
                d = np.hypot(*(a - b))
                n += d.size
                wseg = max(wseg, float(d.max()))
                if d.max() > 1e-6:
                    j = int(np.argmax(d))
                    chk.fail("radial-line-broken-at-separatrix", "the radial grid line through one skeleton point jumps sideways where two radial segments of a region meet: the points sharing a poloidal index are not on one integral curve through the separatrix skeleton",
                             {"grid": g.name, "region": nm, "radial_segments": [k, k + 1], "location": loc, "poloidal_index": j, "jump_m": float(d[j])})
        worst[g.name] = float(f"{w:.3g}")
    chk.notes["max_jump_between_radial_segments_m"] = wseg
    chk.notes["max_sideways_deviation_m"] = {k: float(f"{v:.3g}") for k, v in sideways.items()}
    # loosening refine_atol must not change how closely the radial lines follow grad(psi): same equilibrium, same integration tolerances
    if "lsn" in sideways and "lsn_loose_refine" in sideways and sideways["lsn_loose_refine"] > 3.0 * sideways["lsn"] + 5e-8:
        chk.fail("off-curve:refine_atol-changes-the-radial-lines", "with a loosened refine_atol (and the same integration tolerances) the radial grid lines deviate sideways from the integral "
                 "curves of grad(psi) several times more than with the default", {"grids": ["lsn", "lsn_loose_refine"], "max_sideways_deviation_m": [sideways["lsn"], sideways["lsn_loose_refine"]]})
    chk.count(evaluations=nfield + n, distinct=nfield + n)
    chk.cov["rule"] = "field functions at random + near-edge points of 5 boxes (incl. Zmax > Rmax); every sampled skeleton point x every flux surface of every region of the orthogonal corpus grids"
    chk.notes["correspondence"] = {"field_values": nfield, "grid_points": n, "max_distance_from_reference_curve_m": worst}
    chk.sample({"box": {k: boxes[1][k] for k in ("rmin", "rmax", "zmin", "zmax")}})
    chk.sample({"grids": list(worst)})
