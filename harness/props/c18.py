"""C18 -- psi interpolation reproduces the data; derived fields are its derivatives."""
import os
import random

import numpy as np

import common
from common import REPO, GEN

import pyir
import fields as trf
import dct as trd

LEVEL = "proof"


def translate(chk):
    out = {}
    for name, mod, fn in (("fields", trf, "Gen_Fields.v"), ("dct", trd, "Gen_DCT.v")):
        try:
            text, d = mod.emit(REPO)
        except (pyir.TranslationError, SyntaxError, OSError) as e:
            chk.tie_broken(f"translate/{name}.py", f"translator refused the source: {e}")
            continue
        common.write_if_changed(os.path.join(GEN, fn), text)
        out[name] = d
    return out


def boxes(rng, tier):
    bs = []
    combos = [("spline", 1.0, "var", {}), ("dct", 1.0, "var", {}), ("spline", -1.0, "var", {}), ("dct", -1.0, "var", {}), ("spline", 1.0, "const", {}),
              # the sign / unit options act before the interpolants are built: every derivative relation must hold with them too
              ("spline", 1.0, "var", {"reverse_Bt": True}), ("dct", -1.0, "var", {"reverse_Bt": True, "reverse_current": True}), ("spline", -1.0, "var", {"psi_divide_twopi": True})]
    shapes = [(1.0, 2.0, -0.7, 0.7, 41, 45), (1.0, 2.0, -1.2, 1.2, 49, 41), (0.2, 1.0, -1.5, 1.5, 33, 65)]
    if tier == "quick":
        shapes = [shapes[0], shapes[2]]      # incl. the tall box with Zmax > Rmax
    for (rmin, rmax, zmin, zmax, nr, nz) in shapes:
        for method, sign, fpol, opts in combos:
            pts = [(rng.uniform(rmin + 0.15 * (rmax - rmin), rmax - 0.15 * (rmax - rmin)), rng.uniform(zmin + 0.15 * (zmax - zmin), zmax - 0.15 * (zmax - zmin))) for _ in range(14)]
            bs.append(dict(rmin=rmin, rmax=rmax, zmin=zmin, zmax=zmax, nr=nr, nz=nz, rc=0.5 * (rmin + rmax) + 0.03, zc=0.5 * (zmin + zmax) - 0.05,
                           w=0.45 * min(rmax - rmin, zmax - zmin), tilt=0.6, elong=1.5, sign=sign, method=method, fpol=fpol, options=opts, points=pts))
    return bs


def run(chk):
    tr = translate(chk)
    chk.trust("translate/fields.py and translate/dct.py (validated against the real methods each run)",
              "CONTRACT (spline branch): RectBivariateSpline(dx=.., dy=..) evaluates the partial derivatives of the spline and InterpolatedUnivariateSpline.derivative() "
              "the derivative of the profile spline (FITPACK is modelled, not verified); monitored by Richardson finite differences of the implementation's own primitives",
              "scipy.fftpack.dct inverted by the evaluator at the nodes: monitored (node reproduction), not proved")
    chk.assume("interpolation error against the analytic function is monitored only")
    chk.coq()
    field_oracle(chk, tr)


class Prefixed:
    """a view of a Check whose failure keys carry a prefix (C07 runs this oracle on the ingredients of the curvature)"""
    def __init__(self, chk, prefix):
        self._chk, self._prefix = chk, prefix

    def __getattr__(self, name):
        return getattr(self._chk, name)

    def fail(self, key, what, replay):
        self._chk.fail(self._prefix + key, what, replay)


def field_oracle(chk, tr):
    rng = random.Random(chk.seed)
    bs = boxes(rng, chk.tier)
    rc, res, o, e = common.run_impl_json("impl/fields.py", dict(boxes=bs), timeout=900)
    if res is None:
        chk.tie_broken("impl/fields.py", f"implementation run failed rc={rc}: {(o + e)[-1500:]}")
        return
    n = nval = 0
    worst = {}
    for b, r in zip(bs, res):
        tag = f"{b['method']}:sign={int(b['sign']):+d}:fpol={b['fpol']}" + "".join(f":{k}" for k in sorted(b.get("options", {})))
        where = {"box": {k: b[k] for k in ("rmin", "rmax", "zmin", "zmax", "nr", "nz", "method", "sign", "fpol", "options")}}
        if "error" in r:
            chk.tie_broken("impl/fields.py:box", f"{tag}: {r['error']} {r.get('tb', '')[-300:]}")
            continue
        V, FD = r["vals"], r["fd"]
        P = np.array(b["points"])
        R = P[:, 0]
        def cmp(name, got, ref, tol, key=None):
            nonlocal n
            got, ref = np.array(got), np.array(ref)
            if np.max(np.abs(ref)) < 1e-7 and np.max(np.abs(got)) < 1e-7:
                n += len(got)
                return
            sc = max(1e-12, float(np.max(np.abs(ref))))
            err = float(np.max(np.abs(got - ref)) / sc)
            worst[name] = max(worst.get(name, 0.0), err)
            n += len(got)
            if err > tol:
                k = int(np.argmax(np.abs(got - ref)))
                chk.fail(key or f"derivative:{name}:{b['method']}", f"{name} is not the derivative of its primitive (Richardson finite difference of the implementation's own function), {tag}",
                         dict(where, point=b["points"][k], got=float(got[k]), finite_difference=float(ref[k])))
        # psi -> first derivatives (through Bp: psi_R = -R Bp_Z, psi_Z = R Bp_R) and f_R, f_Z
        pR, pZ = -R * np.array(V["Bp_Z"]), R * np.array(V["Bp_R"])
        cmp("Bp_Z", pR, FD["dpsidR"], 2e-6)
        cmp("Bp_R", pZ, FD["dpsidZ"], 2e-6)
        m2 = pR**2 + pZ**2
        cmp("f_R", V["f_R"], pR / m2, 1e-9, key=f"f_R:{b['method']}")
        cmp("f_Z", V["f_Z"], pZ / m2, 1e-9, key=f"f_Z:{b['method']}")
        for nm, ref in (("d2psidR2", "d2psidR2"), ("d2psidZ2", "d2psidZ2"), ("d2psidRdZ", "d2psidRdZ_a"), ("d2psidRdZ", "d2psidRdZ_b")):
            cmp(nm, V[nm], FD[ref], 2e-5)
        for nm in ("dBRdR", "dBRdZ", "dBZdR", "dBZdZ", "dBzetadR", "dBzetadZ", "dB2dR", "dB2dZ", "dBdR", "dBdZ"):
            cmp(nm, V[nm], FD[nm], 2e-5)
        # div B = 0
        div = np.array(V["Bp_R"]) / R + np.array(V["dBRdR"]) + np.array(V["dBZdZ"])
        if np.max(np.abs(div)) > 1e-9 * max(1.0, np.max(np.abs(V["dBRdR"]))):
            chk.fail(f"divB:{b['method']}", "div B != 0", dict(where, max=float(np.max(np.abs(div)))))
        # profile derivative
        cmp("fpolprime", r["fpolprime"], r["fpolprime_fd"], 1e-5 if b["fpol"] == "var" else 1e9, key=f"fpolprime:psi1D-{'decreasing' if r['f_psi_sign'] < 0 else 'increasing'}")
        # nodes
        tol_node = 1e-12 if b["method"] == "spline" else 1e-9
        if r["node_err"] > tol_node * r["psi_scale"]:
            chk.fail(f"nodes:{b['method']}", "the interpolant does not reproduce the input array at the nodes", dict(where, max_err=r["node_err"]))
        for nm, (es, em, at) in r["kinds"].items():
            if not (es <= 1e-13 and em <= 1e-13):
                chk.fail("argument-kinds", f"{nm}: scalar / array / MultiLocationArray arguments (all or only some locations set) give different numbers",
                         dict(where, scalar_vs_array=es, mla_vs_array=em, locations_set_and_location_wrong=at))
        # translation validation: generated field formulas evaluated with the implementation's own interpolant values
        if "fields" in tr:
            env = {"R": R, "Z": P[:, 1], "psi": lambda a, c: np.array(V["psi"]), "psiR": lambda a, c: pR, "psiZ": lambda a, c: pZ,
                   "psiRR": lambda a, c: np.array(V["d2psidR2"]), "psiZZ": lambda a, c: np.array(V["d2psidZ2"]), "psiRZ": lambda a, c: np.array(V["d2psidRdZ"]),
                   "fpol": lambda p: np.array(r["fpol"]), "fpolprime": lambda p: np.array(r["fpolprime"])}
            for nm in trf.HELPERS:
                model = trf.py_eval(tr["fields"][nm], env)
                nval += len(R)
                if np.max(np.abs(model - np.array(V[nm]))) > 1e-9 * max(1.0, np.max(np.abs(V[nm]))):
                    chk.tie_broken(f"translation-validation:fields:{nm}", f"{tag}: generated formula disagrees with Equilibrium.{nm}")
        if "dct" in tr and "dct" in r:
            D = r["dct"]
            c = np.array(D["psiDCT"])
            cR, cZ = np.array(D["coef_R"])[None, :], np.array(D["coef_Z"])[:, None]
            for k in range(6):
                ir = (P[k, 0] - D["Rmin"]) / D["Rsize"] * (D["nR"] - 1)
                iz = (P[k, 1] - D["Zmin"]) / D["Zsize"] * (D["nZ"] - 1)
                env = {"c": c, "cR": cR, "cZ": cZ, "ir": ir, "iz": iz, "dR": D["dR"], "dZ": D["dZ"]}
                for meth, key in (("__call__", "call"), ("ddR", "ddR"), ("d2dRdZ", "d2dRdZ"), ("d2dZ2", "d2dZ2")):
                    model = float(np.sum(pyir.py_eval(tr["dct"][meth], env)))
                    nval += 1
                    if abs(model - D[key][k]) > 1e-9 * max(1.0, abs(D[key][k])):
                        chk.tie_broken(f"translation-validation:dct:{meth}", f"generated summand disagrees with DCT_2D.{meth}")
            if abs(D["dR"] * (D["nR"] - 1) - D["Rsize"]) > 1e-12 or abs(D["dZ"] * (D["nZ"] - 1) - D["Zsize"]) > 1e-12:
                chk.tie_broken("dct:spacing", "dR*(nR-1) != Rsize (hypothesis of the DCT theorems)")
    chk.count(evaluations=n + nval, distinct=n + nval)
    chk.cov["rule"] = "boxes with dR != dZ, tilted elongated psi, both interpolation methods, both directions of psi1D, varying and constant fpol; 14 random interior points each"
    chk.cov["programs"] = 20
    chk.cov["disagreements_checked"] = nval
    chk.notes["worst_relative_error"] = {k: float(f"{v:.3g}") for k, v in worst.items()}
    chk.sample({"box": {k: bs[0][k] for k in ("rmin", "rmax", "zmin", "zmax", "nr", "nz", "method", "sign", "fpol")}})
