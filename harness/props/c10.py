"""C10 -- poloidal spacing: end-point exact, monotone, resolution-consistent."""
import math
import os
import random

import numpy as np
from scipy.optimize import brentq

import common
import corpus
from common import REPO, GEN
from corpus import tok, SN
from props import c15

import pyir
import spacing as trs

LEVEL = "proof"


def translate(chk):
    c15.translate(chk)
    try:
        text, d = trs.emit(REPO)
    except (pyir.TranslationError, SyntaxError, OSError) as e:
        chk.tie_broken("translate/spacing.py", f"translator refused the source: {e}")
        return None
    common.write_if_changed(os.path.join(GEN, "Gen_Spacing.v"), text)
    return d


def cases(rng, tier):
    cs = []
    n = 70 if tier == "quick" else 400
    for k in range(n):
        N = rng.choice([8, 9, 16, 17, 33, 64])
        Nn = rng.choice([N, 2 * N, 3.5 * N, 0.8 * N])
        L = rng.uniform(0.2, 5.0)
        ext = 4
        idx = [x * 0.5 for x in range(-2 * ext, 2 * (N + ext) + 1)]
        kind = rng.choice(["sqrt", "sqrt", "sqrt", "monotonic", "monotonic", "linear"])
        c = dict(kind=kind, L=L, N=N, Nn=Nn, indices=idx)
        g = L * Nn / N            # gradient (per normalised index) of the uniform spacing
        if kind == "sqrt":
            shape = rng.choice(["wall.X", "X.wall", "X.X", "wall.wall", "lower-only", "upper-only", "none"])
            if shape == "wall.X":
                c.update(b_lower=rng.uniform(0.3, 1.5) * g, a_lower=None, b_upper=0.0, a_upper=rng.uniform(0.05, 0.4) * g * math.sqrt(N / Nn))
            elif shape == "X.wall":
                c.update(b_upper=rng.uniform(0.3, 1.5) * g, a_upper=None, b_lower=0.0, a_lower=rng.uniform(0.05, 0.4) * g * math.sqrt(N / Nn))
            elif shape == "X.X":
                c.update(b_lower=0.0, b_upper=0.0, a_lower=rng.uniform(0.05, 0.3) * g * math.sqrt(N / Nn), a_upper=rng.uniform(0.05, 0.3) * g * math.sqrt(N / Nn))
            elif shape == "wall.wall":
                c.update(b_lower=rng.uniform(0.4, 1.4) * g, b_upper=rng.uniform(0.4, 1.4) * g, a_lower=None, a_upper=None)
            elif shape == "lower-only":
                c.update(b_lower=rng.uniform(0.4, 1.4) * g, a_lower=rng.choice([None, 0.1 * g]))
            elif shape == "upper-only":
                c.update(b_upper=rng.uniform(0.4, 1.4) * g, a_upper=rng.choice([None, 0.1 * g]))
            c["shape"] = shape
        elif kind == "monotonic":
            c.update(d_lower=rng.uniform(0.2, 2.5) * g, d_upper=rng.uniform(0.2, 2.5) * g)
            c["shape"] = "concave" if L < 0.5 * (c["d_upper"] + c["d_lower"]) * N / Nn - 1e-8 * L else "convex"
        else:
            c["shape"] = "linear"
        cs.append(c)
        # the same function at doubled resolution (every second index)
        c2 = dict(c)
        c2.update(N=2 * N, Nn=2 * Nn, indices=[2 * x for x in idx], double_of=len(cs) - 1)
        cs.append(c2)
    return cs


def model_values(tr, c):
    """evaluate the translated closed forms (translation validation); returns array over c['indices'] or None when the branch is not modelled"""
    idx = np.array(c["indices"], dtype=float)
    env = dict(length=c["L"], N=float(c["N"]), N_norm=float(c["Nn"]))
    with np.errstate(all="ignore"):
        if c["kind"] == "linear":
            return pyir.py_eval(tr["linear_main"], dict(env, i=idx))
        if c["kind"] == "monotonic":
            env.update(d_lower=c["d_lower"], d_upper=c["d_upper"])
            if c["shape"] == "convex":
                return np.where(idx < 0, pyir.py_eval(tr["mono_convex_lower"], dict(env, i=idx)), np.where(idx > c["N"], pyir.py_eval(tr["mono_convex_upper"], dict(env, i=idx)),
                                pyir.py_eval(tr["mono_convex_main"], dict(env, i=idx))))
            f = lambda l1: float(pyir.py_eval(tr["mono_concave_constraint"], dict(env, l1=l1)))
            l1 = brentq(f, 1e-15, 1e10, xtol=1e-15, rtol=1e-10)
            e2 = dict(env, l1=l1)
            for k in ("l2", "l3", "r2", "r3"):
                e2[k] = float(pyir.py_eval(tr["mono_concave_" + k], dict(env, l1=l1)))
            return np.where(idx < 0, pyir.py_eval(tr["mono_concave_lower"], dict(e2, i=idx)), np.where(idx > c["N"], pyir.py_eval(tr["mono_concave_upper"], dict(e2, i=idx)),
                            pyir.py_eval(tr["mono_concave_main"], dict(e2, i=np.clip(idx, 0, c["N"])))))
        sh = c["shape"]
        if sh == "none":
            return pyir.py_eval(tr["sqrt0_main"], dict(env, i=idx))
        if sh == "lower-only":
            e2 = dict(env, a_lower=c["a_lower"] or 0.0, b_lower=c["b_lower"])
            return np.where(idx > c["N"], pyir.py_eval(tr["sqrtL_upper"], dict(e2, i=idx)), pyir.py_eval(tr["sqrtL_main"], dict(e2, i=idx)))
        if sh == "upper-only":
            e2 = dict(env, a_upper=c["a_upper"] or 0.0, b_upper=c["b_upper"])
            return np.where(idx < 0, pyir.py_eval(tr["sqrtU_lower"], dict(e2, i=idx)), pyir.py_eval(tr["sqrtU_main"], dict(e2, i=idx)))
        e2 = dict(env, a_lower=c["a_lower"] or 0.0, b_lower=c["b_lower"], a_upper=c["a_upper"] or 0.0, b_upper=c["b_upper"])
        a0, b0 = e2["a_lower"] == 0.0, e2["a_upper"] == 0.0
        tag = "00" if a0 and b0 else "a0" if a0 else "b0" if b0 else "gen"
        v = pyir.py_eval(tr[f"sqrt2_{tag}_main"], dict(e2, i=idx))
        if a0:
            v = np.where(idx < 0, pyir.py_eval(tr[f"sqrt2_{tag}_lower"], dict(e2, i=idx)), v)
        if b0:
            v = np.where(idx > c["N"], pyir.py_eval(tr[f"sqrt2_{tag}_upper"], dict(e2, i=idx)), v)
        return v


def check_functions(chk, tr):
    rng = random.Random(chk.seed)
    cs = cases(rng, chk.tier)
    cfg = tok("c10_eq", "lsn", SN)
    rc, res, o, e = common.run_impl_json("impl/spacing.py", dict(cfg=cfg, cases=cs), timeout=900)
    if res is None:
        chk.tie_broken("impl/spacing.py", f"implementation run failed rc={rc}: {(o + e)[-1500:]}")
        return 0
    n = 0
    dist = {}
    nonmono = 0
    worst = dict(end=0.0, grad=0.0, model=0.0, doubling=0.0)
    vals = []
    for c, r in zip(cs, res["cases"]):
        key = f"{c['kind']}:{c['shape']}"
        dist[key] = dist.get(key, 0) + 1
        if "error" in r:
            dist[key + ":refused"] = dist.get(key + ":refused", 0) + 1
            vals.append(None)
            continue
        v = np.array([np.nan if x is None else x for x in r["values"]])
        vals.append(v)
        idx = np.array(c["indices"], dtype=float)
        N, L, Nn = c["N"], c["L"], c["Nn"]
        rp = {k: c[k] for k in c if k != "indices"}
        i0, iN = int(np.argmin(np.abs(idx))), int(np.argmin(np.abs(idx - N)))
        n += 2
        e0, eN = abs(v[i0]), abs(v[iN] - L)
        worst["end"] = max(worst["end"], e0 / L, eN / L)
        tolN = 1e-7 * L if c["shape"] == "concave" else 1e-10 * L
        if not (e0 <= 1e-10 * L):
            chk.fail(f"end-point:{key}:start", "the spacing function does not map index 0 to distance 0", dict(rp, got=float(v[i0])))
        if not (eN <= tolN):
            chk.fail(f"end-point:{key}:end", "the spacing function does not map the last index to the contour length", dict(rp, got=float(v[iN]), expected=L))
        inside = (idx >= 0) & (idx <= N)
        seg = v[inside]
        if np.any(~np.isfinite(seg)):
            chk.fail(f"not-finite:{key}", "the spacing function is not finite inside [0, N]", rp)
        elif np.any(np.diff(seg) <= 0):
            nonmono += 1     # refused later by the guards (checked at grid level); the constructors only check the end gradients
        # beyond the ends (boundary guard cells): defined exactly where a wall end is (no sqrt term there), continuous and increasing
        for side, sel, a_key in (("lower", idx < 0, "a_lower"), ("upper", idx > N, "a_upper")):
            has_wall = (c["kind"] != "sqrt") or (c["shape"] not in ("none",) and not c.get(a_key) and (c.get("b_" + side) is not None or c["shape"] in ("lower-only", "upper-only")))
            if c["kind"] == "sqrt" and c["shape"] in ("lower-only", "upper-only", "none", "X.X"):
                continue
            if c["kind"] == "sqrt" and c.get(a_key):
                continue
            ext = v[sel]
            full = np.concatenate([ext, seg[:3]]) if side == "lower" else np.concatenate([seg[-3:], ext])
            n += len(ext)
            if np.any(~np.isfinite(ext)):
                chk.fail(f"guard-cells:{key}:{side}:not-finite", "the continuation of the spacing function into the boundary guard cells is not finite", rp)
            elif np.any(np.diff(full) <= 0) and not np.any(np.diff(seg) <= 0):
                chk.fail(f"guard-cells:{key}:{side}:not-increasing", "the continuation of the spacing function into the boundary guard cells is not increasing", rp)
            else:
                # smooth join: one-sided gradients and curvatures either side of the end, from samples at +-k*1e-2
                ar = np.array([np.nan if x is None else x for x in r["around"]])
                w = ar[:7] if side == "lower" else ar[7:]
                h = 1e-2
                g_lo, g_hi = (-3 * w[3] + 4 * w[2] - w[1]) / (-2 * h), (-3 * w[3] + 4 * w[4] - w[5]) / (2 * h)      # one-sided, O(h^2)
                c_lo, c_hi = (w[3] - 2 * w[2] + w[1]) / h**2, (w[5] - 2 * w[4] + w[3]) / h**2                        # at -h and +h
                t_lo, t_hi = (w[3] - 3 * w[2] + 3 * w[1] - w[0]) / h**3, (w[6] - 3 * w[5] + 3 * w[4] - w[3]) / h**3
                n += 2
                gs = L / N
                if abs(g_lo - g_hi) > 1e-3 * gs + 4 * h * h * (abs(t_lo) + abs(t_hi)):
                    chk.fail(f"guard-cells:{key}:{side}:gradient-jump", "the continuation into the boundary guard cells does not continue the gradient of the spacing function at the end of the region",
                             dict(rp, gradient_inside=float(g_hi if side == "lower" else g_lo), gradient_outside=float(g_lo if side == "lower" else g_hi)))
                if c["kind"] == "sqrt" and abs(c_lo - c_hi) > 0.02 * max(abs(c_lo), abs(c_hi)) + 3 * h * (abs(t_lo) + abs(t_hi)) + 1e-6 * gs:
                    chk.fail(f"guard-cells:{key}:{side}:curvature-jump", "the continuation into the boundary guard cells does not match the curvature of the spacing function at the end of the region",
                             dict(rp, curvature_below=float(c_lo), curvature_above=float(c_hi)))
        # end gradients at wall ends: one-sided difference quotient on the half-index grid, extrapolated
        for side, b_key, a_key in (("lower", "b_lower" if c["kind"] == "sqrt" else "d_lower", "a_lower"), ("upper", "b_upper" if c["kind"] == "sqrt" else "d_upper", "a_upper")):
            if c["kind"] == "linear" or c.get(b_key) is None or (c["kind"] == "sqrt" and (c.get(a_key) or c["shape"] in ("X.X",))):
                continue
            if c["kind"] == "sqrt" and c["shape"] in ("wall.X", "X.wall") and c.get(b_key) == 0.0:
                continue
            fv = [np.nan if x is None else x for x in r["fine"]]
            hh = 1e-3
            if side == "lower":
                g1, g2 = (fv[1] - fv[0]) / hh, (fv[2] - fv[0]) / (2 * hh)
            else:
                g1, g2 = (fv[5] - fv[4]) / hh, (fv[5] - fv[3]) / (2 * hh)
            grad = 2 * g1 - g2                   # Richardson, error O(h^2 s''')
            want = c[b_key] / Nn
            n += 1
            rel = abs(grad - want) / (L / N)
            worst["grad"] = max(worst["grad"], rel)
            if not rel <= 1e-4:
                chk.fail(f"end-gradient:{key}:{side}", "the gradient of the spacing function at a wall end is not the requested one (per unit of the normalised index)", dict(rp, got=float(grad), expected=want))
        # translation validation
        if tr is not None:
            try:
                m = np.asarray(model_values(tr, c), dtype=float)
            except Exception as ex:  # pragma: no cover
                chk.tie_broken("translation-validation:spacing", f"{key}: cannot evaluate the translated form: {ex!r}")
                m = None
            if m is not None:
                ok = np.isfinite(v) & np.isfinite(m)
                if ok.any():
                    em = float(np.max(np.abs(v - m)[ok])) / L
                    worst["model"] = max(worst["model"], em)
                    if em > (1e-7 if c["shape"] == "concave" else 1e-11):
                        chk.tie_broken(f"translation-validation:{key}", f"translated closed form differs from the implementation by {em:.3g} L for {rp}")
                if np.any(np.isfinite(v) != np.isfinite(m)):
                    chk.tie_broken(f"translation-validation:{key}:domain", f"translated closed form and implementation are finite on different indices for {rp}")
        # doubling
        if "double_of" in c and vals[c["double_of"]] is not None:
            v0 = vals[c["double_of"]]
            ok = np.isfinite(v) & np.isfinite(v0)
            ed = float(np.max(np.abs(v - v0)[ok])) / L if ok.any() else 0.0
            worst["doubling"] = max(worst["doubling"], ed)
            n += int(ok.sum())
            if ed > (1e-7 if c["shape"] == "concave" else 1e-11) or np.any(np.isfinite(v) != np.isfinite(v0)):
                chk.fail(f"resolution:{key}", "doubling the number of points and N_norm does not leave the original cell faces where they were", dict(rp, max_difference=ed))
    g = res["guard"]
    for name, want in (("increasing", "accepted"), ("decreasing-step", "refused"), ("decreasing-in-upper-guards", "refused" if res["extend"][1] > 0 else None)):
        if want and g.get(name) != want:
            chk.fail(f"guard:{name}", "_checkMonotonic does not refuse a spacing function that decreases on the index range of the region (or refuses an increasing one)", {"case": name, "outcome": g.get(name), "extend": res["extend"]})
    chk.notes["function_cases"] = {"count": len(cs), "distribution": dist, "not_monotone_inside_and_left_to_the_guards": nonmono, "guard": g,
                                   "worst": {k: float(f"{x:.3g}") for k, x in worst.items()}}
    return n


def check_grids(chk):
    G = {g.name: g for g in corpus.get(tier=chk.tier) if g.ok}
    n = 0
    worst = dict(xpoint_ratio=1.0, endpoints=0.0, doubling=0.0)
    # (i) strictly increasing poloidal order, (ii) continuity of the spacing across X-point joins of orthogonal grids
    for g in G.values():
        if g.cfg["kind"] != "tokamak":
            continue
        R = g.d["regions"]
        orth = bool(g.d["mesh"]["user_options"].get("orthogonal", True))
        for rid, r in R.items():
            pd = r["arrays"]["poloidal_distance"]
            inter = np.empty((pd["ylow"].shape[0], pd["ylow"].shape[1] + pd["centre"].shape[1]))
            inter[:, 0::2], inter[:, 1::2] = pd["ylow"], pd["centre"]
            n += inter.size
            if not np.all(np.diff(inter, axis=1) > 0):
                chk.fail("grid:order", "grid points do not appear in strictly increasing poloidal order along a flux surface", {"grid": g.name, "region": r["name"]})
            up = r["connections"]["upper"]
            if orth and up is not None and any(p is not None for p in r["xPointsAtEnd"]):
                a, b = r["arrays"]["hy"]["centre"][:, -1], R[up]["arrays"]["hy"]["centre"][:, 0]
                ratio = np.maximum(a / b, b / a)
                n += ratio.size
                worst["xpoint_ratio"] = max(worst["xpoint_ratio"], float(ratio.max()))
                # observed only: at the corpus resolutions (4-16 cells per region) the regular part of s(i) differs between the two regions; the equality of the
                # leading terms on both sides of the X-point is the theorem C10_end_gradients (same a, same N_norm)
    # (ii') the radial segments of one region are gridded from the SAME regridded separatrix contour(s): their shared radial boundary coincides
    for g in G.values():
        if g.cfg["kind"] != "tokamak":
            continue
        byseg = {}
        for rid, r in g.d["regions"].items():
            byseg[(r["eqname"], r["radialIndex"])] = r
        for (nm, k), r in byseg.items():
            nx = byseg.get((nm, k + 1))
            if nx is None:
                continue
            for loc in ("xlow", "corners"):
                for f in ("Rxy", "Zxy"):
                    e = float(np.max(np.abs(r["arrays"][f][loc][-1, :] - nx["arrays"][f][loc][0, :])))
                    n += r["arrays"][f][loc].shape[1]
                    worst["segments"] = max(worst.get("segments", 0.0), e)
                    if e > 1e-6:
                        chk.fail("grid:radial-segments-disagree", "two radial segments of one region place their shared separatrix contour differently (the spacing function was built for different lengths)",
                                 {"grid": g.name, "region": nm, "segments": [k, k + 1], "loc": loc, "field": f, "max_difference": e})
    # (iii) region end points are not moved by redistribution
    for a, b in (("lsn_nonorth", "lsn_nonorth_regrid"),):
        if a in G and b in G:
            for rid, ra in G[a].d["regions"].items():
                rb = G[b].d["regions"][rid]
                for loc in ("ylow", "corners"):
                    for k in ("Rxy", "Zxy"):
                        for col in (0, -1):
                            e = float(np.max(np.abs(ra["arrays"][k][loc][:, col] - rb["arrays"][k][loc][:, col])))
                            n += 1
                            worst["endpoints"] = max(worst["endpoints"], e)
                            if e > 1e-8:
                                chk.fail("grid:endpoints-moved", "region end points are moved by redistributePoints", {"grids": [a, b], "region": ra["name"], "loc": loc, "field": k, "column": col, "difference": e})
    # (iv) doubling all ny leaves each original face a face of the finer grid
    for a, b in (("lsn", "lsn_ny2"),):
        if a in G and b in G:
            for rid, ra in G[a].d["regions"].items():
                rb = G[b].d["regions"][rid]
                ya, yb = ra["arrays"]["Rxy"]["ylow"], rb["arrays"]["Rxy"]["ylow"]
                za, zb = ra["arrays"]["Zxy"]["ylow"], rb["arrays"]["Zxy"]["ylow"]
                myg = int(G[a].d["mesh"]["user_options"].get("y_boundary_guards", 0))
                gl = myg if ra["connections"]["lower"] is None else 0
                gu = myg if ra["connections"]["upper"] is None else 0
                na = ya.shape[1] - 1 - gl - gu
                ca = np.arange(gl, gl + na + 1)
                cb = gl + 2 * (ca - gl)
                # the radial (psi) grid is identical, so rows correspond one to one
                e = float(np.max(np.hypot(ya[:, ca] - yb[:, cb], za[:, ca] - zb[:, cb])))
                n += ca.size * ya.shape[0]
                worst["doubling"] = max(worst["doubling"], e)
                if e > 2e-5:
                    chk.fail("grid:resolution-consistency", "after doubling every ny the faces of the original grid are not faces of the finer grid", {"grids": [a, b], "region": ra["name"], "max_distance": e})
        else:
            chk.tie_broken("corpus", f"resolution pair {a}/{b} not available")
    chk.notes["grid_worst"] = {k: float(f"{v:.3g}") for k, v in worst.items()}
    return n


def check_region_level(chk):
    """The spacing functions as the REGION hands them out must use the normalisation N_norm = N_norm_prefactor * ny_total everywhere:
    (a) getSfuncFixedSpacing(method) is the constructor called with that N_norm; (b) metamorphic: for the monotonic-based functions
    (fixed spacing, fixed perpendicular spacing, combined weights) the end gradients per index scale exactly like 1/N_norm_prefactor
    -- 'the requested end gradients in units of the normalised index'."""
    n = 0
    prefs = [1.0, 0.5, 2.0]
    from corpus import DN, nonorth
    cfgs = [("lsn", tok("c10_region_lsn", "lsn", SN)), ("lsn_nonorth", tok("c10_region_lsn_no", "lsn", nonorth(SN)))]
    if chk.tier != "quick":
        cfgs.append(("udn_nonorth", tok("c10_region_udn_no", "udn", nonorth(DN))))
    summary = {}
    for cname, cfg in cfgs:
        rc, res, o, e = common.run_impl_json("impl/spacing_region.py", dict(cfg=cfg, prefactors=prefs), timeout=900)
        if res is None:
            chk.tie_broken("impl/spacing_region.py", f"implementation run failed rc={rc}: {(o + e)[-1500:]}")
            continue
        base = res[str(prefs[0])]
        for rname, fb in base.items():
            info = fb["_info"]
            # (a) region-level wrapper == constructor with N_norm = prefactor * ny_total, for every prefactor
            for p in prefs:
                fr = res[str(p)][rname]
                for meth in ("monotonic", "sqrt"):
                    a, b = fr.get("fixed:" + meth), fr.get("direct:" + meth)
                    if not a or not b:
                        continue
                    if ("error" in a) != ("error" in b):
                        # the wrapper additionally runs the monotonicity guard, which may refuse what the bare constructor returns
                        if "error" in a and ("monoton" in a["error"].lower() or "decreasing" in a["error"].lower()):
                            continue
                        chk.fail(f"region:N_norm:fixed:{meth}:refusal-differs", "getSfuncFixedSpacing and the constructor called with N_norm = N_norm_prefactor*ny_total do not both succeed",
                                 dict(config=cname, region=rname, prefactor=p, wrapper=a, direct=b))
                        continue
                    if "error" in a:
                        continue
                    va, vb = np.array(a["values"], dtype=float), np.array(b["values"], dtype=float)
                    n += 1
                    if not np.allclose(va, vb, rtol=0, atol=1e-12 * max(1.0, info["L"]), equal_nan=True):
                        chk.fail(f"region:N_norm:fixed:{meth}", "getSfuncFixedSpacing does not hand the normalisation N_norm_prefactor*ny_total to the spacing-function constructor",
                                 dict(config=cname, region=rname, prefactor=p, N=info["N"], ny_total=info["ny_total"], max_difference=float(np.nanmax(np.abs(va - vb)))))
            # (b) gradient * prefactor is the same for every prefactor
            for fname in ("fixed:monotonic", "perp:lower:sperp", "perp:upper:sperp", "perp:lower:s", "perp:upper:s", "combined:poloidal", "combined:perp"):
                for end in ("g_lower", "g_upper"):
                    if fname.startswith("perp:lower") and end == "g_upper" or fname.startswith("perp:upper") and end == "g_lower":
                        pass   # the far end of a one-ended function has the requested gradient too (monotonic form): keep it
                    vals = []
                    for p in prefs:
                        f = res[str(p)][rname].get(fname)
                        if not f or "error" in f or f.get(end) is None:
                            vals = None
                            break
                        vals.append(f[end] * p)
                    if not vals:
                        continue
                    n += 1
                    ref = vals[0]
                    if abs(ref) < 1e-9:
                        continue
                    dev = max(abs(v / ref - 1.0) for v in vals)
                    summary[f"{cname}:{fname}:{end}"] = max(summary.get(f"{cname}:{fname}:{end}", 0.0), float(f"{dev:.2g}"))
                    if dev > 2e-2:
                        chk.fail(f"region:end-gradient-not-per-normalised-index:{fname}:{end.split('_')[1]}",
                                 "the end gradient of a region-level spacing function does not scale like 1/N_norm_prefactor: the requested spacing is not applied in units of the normalised index N_norm_prefactor*ny_total",
                                 dict(config=cname, region=rname, kind=info["kind"], function=fname, prefactors=prefs, gradient_times_prefactor=vals))
    chk.notes["region_level_gradient_scaling_max_dev"] = summary
    return n


def check_range_parameters(chk, prefix=""):
    """combineSfuncs blends towards the orthogonal spacing over a range that varies radially: contours inside the separatrix use the *_range_inner
    parameters, contours outside use *_range_outer -- at BOTH ends of the region alike (a region's start is its mirror image's end).  Metamorphic:
    on the innermost contour the spacing function does not depend on any *_range_outer option but does on *_range_inner; vice versa outermost."""
    from corpus import nonorth
    vals = {"nonorthogonal_target_all_poloidal_spacing_range": 0.1, "nonorthogonal_xpoint_poloidal_spacing_range": 0.05}
    n = 0
    for cname, cfg in (("lsn_nonorth", tok("c10_rng_lsn", "lsn", nonorth(SN))), ("usn_nonorth", tok("c10_rng_usn", "usn", nonorth(SN)))):
        rc, res, o, e = common.run_impl_json("impl/spacing_region.py", dict(mode="ranges", cfg=cfg, values=vals, scale=3.0), timeout=600)
        if res is None:
            chk.tie_broken("impl/spacing_region.py:ranges", f"implementation run failed rc={rc}: {(o + e)[-1200:]}")
            continue
        for rname, d in res.items():
            F = d["funcs"]
            for cont, own, other in (("innermost", "scaled_inner", "scaled_outer"), ("outermost", "scaled_outer", "scaled_inner")):
                b, x_own, x_other = F.get("base:" + cont), F.get(own + ":" + cont), F.get(other + ":" + cont)
                if b is None or any(isinstance(v, dict) for v in (b, x_own, x_other)):
                    continue
                b, x_own, x_other = np.array(b), np.array(x_own), np.array(x_other)
                n += 2 * b.size
                d_other = float(np.max(np.abs(b - x_other))) / d["L"]
                d_own = float(np.max(np.abs(b - x_own))) / d["L"]
                if d_other > 1e-12:
                    k = int(np.argmax(np.abs(b - x_other)))
                    chk.fail(f"{prefix}combined-weights:{cont}-contour-uses-{other.split('_')[1]}-range:{'lower' if k < b.size // 2 else 'upper'}-end",
                             f"the combined spacing function of the {cont} contour of a region changes when only the *_range_{other.split('_')[1]} options change: one end of the region reads the range parameter of the wrong side of the separatrix (the two ends of a region must be treated alike: a region's start is the end of its mirror image)",
                             dict(equilibrium=cname, region=rname, kind=d["kind"], contour=cont, scaled_options=[k2 + "_" + other.split("_")[1] for k2 in vals], index_of_largest_change=k / 2.0, change_over_length=d_other))
                if d_own < 1e-6:
                    # resetNonorthogonalOptions(new settings) followed by combineSfuncs: the REQUESTED ranges are the new ones
                    chk.fail(f"{prefix}region:reset-options-ignored:{cont}", f"after resetNonorthogonalOptions with the {own.split('_')[1]} range options scaled by 3 the combined spacing function of the {cont} contour is unchanged: the region keeps using the spacing parameters of its earlier options",
                             dict(equilibrium=cname, region=rname, kind=d["kind"], contour=cont, scaled_options=[k2 + "_" + own.split("_")[1] for k2 in vals], change_over_length=d_own))
    return n


def run(chk):
    np.seterr(all="ignore")
    tr = translate(chk)
    chk.trust("translate/spacing.py (path-directed symbolic execution of the three constructors; validated each run against the real functions at 1e-11 L)",
              "CONTRACT: scipy.optimize.brentq returns a root of the constraint of the logarithmic branch (the value at the last index misses the length by the residual: observed < 1e-7 L)",
              "hand model of combineSfuncs' weights and of the guards (normalise / combine / increasing in theories/Proof_Spacing.v); the guards themselves are exercised on the real region object")
    chk.assume("interior monotonicity of the sqrt form is not a theorem (it is false for some parameters): it is left to the run-time guards, whose presence is checked by fingerprint and by calling _checkMonotonic",
               "resolution consistency of whole grids is observed at 2e-5 m (positions go through FineContour interpolation and refinement)")
    chk.coq()
    # spacing by perpendicular distance: theories/Model_Sperp.v (PrimFloat instance) against the real FineContour.interpSSperp
    from props import quad
    chk.trust("hand model theories/Model_Sperp.v of FineContour.interpSSperp (projection, monotonising loops, total, linear interpolation with extrapolation), "
              "run bit for bit against the real method on every run")
    qc = quad.correspondence(chk, 150 if chk.tier == "quick" else 1500, ["sperp"], "sperp")
    n = check_functions(chk, tr) + (len(qc[0]) if qc else 0)
    n += check_region_level(chk)
    n += check_range_parameters(chk)
    n += check_grids(chk)
    chk.count(evaluations=n, distinct=n)
    chk.cov["rule"] = ("direct calls of the real constructors with random (length, N, N_norm, end parameters) over all region kinds (wall.X, X.wall, X.X, wall.wall, one-ended, none; monotonic convex / "
                       "concave; linear), on half-integer indices from 4 below 0 to 4 above N: end values, guard-cell continuation (finite, increasing, curvature), end gradients, doubled resolution, "
                       "translation validation; _checkMonotonic on crafted functions; corpus grids: poloidal order, X-point spacing continuity, end points under redistribution, ny doubling")
