"""C15 -- regridding is history independent."""
import os
import pickle
import random
import tempfile
from concurrent.futures import ThreadPoolExecutor

import numpy as np

import common
import corpus
from common import REPO, GEN
from corpus import tok, nonorth, SN, CDN

import pyir
import regrid as trr

LEVEL = "proof"

# base options: user spacings that differ from the class-level defaults of the non-orthogonal options (so that a region filling in
# omitted options from the wrong factory shows)
BASE_OPTS = dict(target_all_poloidal_spacing_length=0.5, xpoint_poloidal_spacing_length=2.0)
SETTINGS = {
    "D": {},
    "A": dict(nonorthogonal_target_all_poloidal_spacing_length=0.6, nonorthogonal_xpoint_poloidal_spacing_length=0.3, nonorthogonal_target_all_poloidal_spacing_range=0.05),
    "B": dict(nonorthogonal_xpoint_poloidal_spacing_range=0.02, nonorthogonal_target_all_poloidal_spacing_range_outer=0.3),
    "C": dict(nonorthogonal_radial_range_power=1.0),
    "E": dict(nonorthogonal_target_all_poloidal_spacing_range=0.15),
    "F": dict(nonorthogonal_target_all_poloidal_spacing_length=0.7),
    # settings that redistributePoints REFUSES part-way (the spacing function of the outer leg cannot be monotonic), after the inner leg and the core were regridded
    "X": dict(nonorthogonal_xpoint_poloidal_spacing_length=0.5, nonorthogonal_target_outer_lower_poloidal_spacing_length=20.0),
}
METHODS = {"poc": "poloidal_orthogonal_combined"}
OTHER = [dict(ny_sol=12), dict(psinorm_sol=1.1), dict(finecontour_Nfine=50), dict(nx_core=6)]


def translate(chk):
    try:
        text, d = trr.emit(REPO)
    except (pyir.TranslationError, SyntaxError, OSError) as e:
        chk.tie_broken("translate/regrid.py", f"translator refused the source: {e}")
        return None
    common.write_if_changed(os.path.join(GEN, "Gen_Regrid.v"), text)
    return d


def base_cfg(fam="lsn"):
    """fam = analytic family, optionally with a suffix _<method key> selecting a non-default nonorthogonal_spacing_method"""
    b = nonorth(SN if fam.split("_")[0] == "lsn" else CDN)
    b.update(BASE_OPTS)
    if "_" in fam:
        b = {k: v for k, v in b.items() if k not in BASE_OPTS}
        b["nonorthogonal_spacing_method"] = METHODS[fam.split("_")[1]]
    return b


def fresh_cfg(fam, key):
    c = tok(f"c15_{fam}_{key}", fam.split("_")[0], base_cfg(fam), options=SETTINGS[key])
    c["tiers"] = []
    return c


def histories(tier, seed):
    R = lambda k, partial: dict(op="redistribute", settings=SETTINGS[k], partial=partial, key=k)
    O = lambda: dict(op="observe")
    H = []
    # the GUI flow and returning to earlier settings
    H.append(("lsn", [dict(op="geometry"), R("A", False), dict(op="calculateRZ"), O(), R("D", False), dict(op="calculateRZ"), O(), R("B", False), dict(op="calculateRZ"), O(),
                      R("A", False), dict(op="calculateRZ"), O()]))
    # partial settings dicts (omitted options must come from the Equilibrium's defaults), radial_range_power alone
    H.append(("lsn", [R("E", True), dict(op="calculateRZ"), O(), R("D", True), dict(op="calculateRZ"), O(), R("C", True), dict(op="calculateRZ"), O(), R("A", True), dict(op="calculateRZ"), O(),
                      R("C", True), dict(op="calculateRZ"), O()]))
    # redistributePoints followed directly by geometry() (no calculateRZ), before and after a first geometry()
    H.append(("lsn", [R("A", False), O(), R("B", False), O(), dict(op="calculateRZ"), O()]))
    # geometry() twice with nothing in between (the GUI's "Write grid" pressed twice), then a regrid
    H.append(("lsn", [O(), O(), R("E", False), O(), O()]))
    # settings other than nonorthogonal_*: unaffected or refused
    H.append(("lsn", [dict(op="redistribute", settings=dict(SETTINGS["A"], **OTHER[0]), partial=False, key="A", other=list(OTHER[0])), dict(op="calculateRZ"), O(),
                      dict(op="redistribute", settings=dict(SETTINGS["B"], **OTHER[1]), partial=False, key="B", other=list(OTHER[1])), dict(op="calculateRZ"), O(),
                      dict(op="redistribute", settings=dict(SETTINGS["A"], **OTHER[2]), partial=True, key="A", other=list(OTHER[2])), dict(op="calculateRZ"), O(),
                      dict(op="redistribute", settings=dict(SETTINGS["D"], **OTHER[3]), partial=True, key="D", other=list(OTHER[3])), dict(op="calculateRZ"), O()]))
    # a call that is refused part-way, then a return to the settings that were in force: the mesh must be the mesh of those settings again
    H.append(("lsn", [R("A", False), dict(op="calculateRZ"), O(), dict(op="redistribute", settings=SETTINGS["X"], partial=False, key="X", expect_refusal=True),
                      R("A", False), dict(op="calculateRZ"), O(), dict(op="redistribute", settings=SETTINGS["X"], partial=False, key="X", expect_refusal=True),
                      R("D", False), dict(op="calculateRZ"), O()]))
    # the other documented spacing methods: the separatrix skeleton built at construction must not remember the non-orthogonal settings of that time
    H.append(("lsn_poc", [R("F", False), dict(op="calculateRZ"), O(), R("D", False), dict(op="calculateRZ"), O()]))
    if tier == "thorough":
        rng = random.Random(seed)
        for fam in ("lsn", "lsn", "cdn"):
            h = []
            for _ in range(7):
                k = rng.choice(list(SETTINGS))
                h.append(R(k, rng.random() < 0.5))
                if k == "X":      # settings no build accepts (a target spacing longer than the leg): refused here as in a fresh build
                    h[-1]["expect_refusal"] = True
                if rng.random() < 0.7:
                    h.append(dict(op="calculateRZ"))
                if rng.random() < 0.3:
                    h.append(dict(op="geometry"))
                h.append(O())
            H.append((fam, h))
    return H


def run_history(args):
    fam, hist, path = args
    cfg = tok(f"c15_{fam}_base", fam.split("_")[0], base_cfg(fam))
    rc, res, o, e = common.run_impl_json("impl/regrid.py", dict(cfg=cfg, history=hist, out=path), timeout=1500)
    if res is None or not os.path.exists(path):
        return None, (o + e)[-1500:]
    with open(path, "rb") as f:
        return pickle.load(f), None


def run(chk):
    tr = translate(chk)
    chk.trust("translate/regrid.py (flags about the option flow / regridding path, PsiContour method-effect table: the model's branches are selected by them)",
              "hand model theories/Model_Regrid.v tied by the history correspondence: real BoutMesh objects driven through the same histories, compared with meshes built from scratch",
              "CONTRACT: OptionsFactory.create is a function of (factory, given settings) and re-creating from evaluated options returns them; PsiContour.regrid + refine is a function of the "
              "contour's FineContour, sfunc_orthogonal, end points and the region's options (monitored by the comparison with fresh builds to 5e-7 m)")
    chk.assume("positions are compared at 5e-7 m (refine_atol = 2e-8 in psi), derived geometry at 1e-4 of its largest magnitude")
    chk.coq()
    H = histories(chk.tier, chk.seed)
    fams = sorted({f for f, _ in H})
    fresh = {}
    needed = sorted({(f, op["key"]) for f, h in H for op in h if op["op"] == "redistribute" and not op.get("expect_refusal")} | {(f, "D") for f in fams})
    gs = corpus.get(names=[], extra_cfgs=[fresh_cfg(f, k) for f, k in needed])
    for g in gs:
        fresh[g.name] = g
    tmp = tempfile.mkdtemp(prefix="c15_", dir=common.SCRATCH if hasattr(common, "SCRATCH") else None)
    with ThreadPoolExecutor(max_workers=min(len(H), 8)) as ex:
        results = list(ex.map(run_history, [(f, h, os.path.join(tmp, f"h{i}.pkl")) for i, (f, h) in enumerate(H)]))
    n = 0
    worst = {}
    nobs = 0
    for hi, ((fam, hist), (res, err)) in enumerate(zip(H, results)):
        if res is None:
            chk.tie_broken("impl/regrid.py", f"history {hi} did not run: {err}")
            continue
        cur, partial, crz, other, refused, since_geo = "D", False, True, None, False, "build"
        limbo = False
        for op, r in zip(hist, res):
            if op["op"] == "redistribute":
                if op.get("expect_refusal"):
                    # whether it is refused or not, what follows is judged against fresh builds of the settings given AFTERWARDS; if it is accepted it becomes current
                    if r["ok"]:
                        cur, partial, crz, other = op["key"], False, False, None
                    else:
                        limbo = True     # refused part-way: until settings are accepted again there are no 'final settings' to compare with
                    continue
                if not r["ok"]:
                    if op.get("other"):
                        refused = True      # a refusal is allowed for non-nonorthogonal settings: settings in force stay as before
                        continue
                    chk.fail(f"redistribute-refused:{op['key']}", "redistributePoints refused non-orthogonal settings that a fresh build accepts", {"family": fam, "history": hist, "step": r["op"], "error": r["error"]})
                    break
                cur, partial, crz, other = op["key"], bool(op.get("partial")), False, op.get("other")
                since_geo = "redistribute"
                limbo = False
            elif op["op"] == "calculateRZ":
                crz = True
                since_geo = since_geo + "+calculateRZ" if "calculateRZ" not in since_geo else since_geo
            elif limbo and op["op"] in ("geometry", "observe"):
                continue
            elif op["op"] == "geometry":
                if not r["ok"]:
                    chk.fail(f"geometry-raises:after-{since_geo}", "geometry() raised in a regridding history", {"family": fam, "history": hist[:hist.index(op) + 1], "step": r["op"], "error": r["error"]})
                    break
                since_geo = "geometry"
            elif op["op"] == "observe":
                if not r["ok"]:
                    chk.fail(f"geometry-raises:after-{since_geo}", "geometry() raised in a regridding history (what it was called after is in the key)",
                             {"family": fam, "base_options": BASE_OPTS, "history": hist[:r["op"] + 1], "step": r["op"], "error": r["error"]})
                    break
                since_geo = "geometry"
                g = fresh.get(f"c15_{fam}_{cur}")
                if g is None or not g.ok:
                    chk.tie_broken("oracle:fresh-build", f"fresh build for settings {cur} failed: {g.error[-300:] if g is not None else ''}")
                    continue
                nobs += 1
                tag = f"{'partial' if partial else 'full'}-settings:{'calculateRZ' if crz else 'no-calculateRZ'}" + (":with-other-settings" if other else "")
                if "_" in fam:
                    tag += ":" + METHODS[fam.split("_")[1]]
                w = worst.setdefault(tag, dict(pos=0.0, geom=0.0))
                done = False
                for rid, s in r["snap"].items():
                    F = g.d["regions"][rid]["arrays"]
                    for k, v in s.items():
                        if k == "contours" or done:
                            continue
                        for loc, a in v.items():
                            if k not in F or loc not in F[k]:
                                continue
                            ref = F[k][loc]
                            n += a.size
                            if k in ("Rxy", "Zxy"):
                                e = float(np.max(np.abs(a - ref)))
                                w["pos"] = max(w["pos"], e)
                                bad = e > 5e-7
                            else:
                                sc = float(np.nanmax(np.abs(ref))) or 1.0
                                e = float(np.nanmax(np.abs(a - ref))) / sc
                                w["geom"] = max(w["geom"], e)
                                bad = e > 1e-4
                            if bad and not done:
                                done = True
                                upto = hist[:hist.index(op) + 1] if op in hist else hist
                                chk.fail(f"regrid-differs:{tag}", "after a history of redistributePoints calls the mesh differs from a mesh built from scratch with the final settings",
                                         {"family": fam, "base_options": BASE_OPTS, "history": [{k2: v2 for k2, v2 in o2.items()} for o2 in upto], "settings_in_force": SETTINGS[cur],
                                          "region": g.d["regions"][rid]["name"], "field": k, "loc": loc, "max_difference": e, "fresh_config": f"c15_{fam}_{cur}"})
    import shutil
    shutil.rmtree(tmp, ignore_errors=True)
    chk.count(evaluations=n, distinct=n)
    chk.cov["rule"] = ("histories of redistributePoints(full / partial settings) / calculateRZ / geometry on real non-orthogonal meshes (lsn; thorough adds random histories incl. cdn): every "
                       "observation (R-Z arrays and 12 derived fields of every region, 4 locations) against the cached fresh build with the settings in force; settings A..E incl. returning to earlier "
                       "settings, radial_range_power alone, non-nonorthogonal keys mixed in")
    chk.notes["histories"] = {"count": len(H), "observations": nobs, "ops_distribution": {k: sum(1 for _, h in H for o in h if o["op"] == k) for k in ("redistribute", "calculateRZ", "geometry", "observe")}}
    chk.notes["worst_difference"] = {k: {a: float(f"{b:.3g}") for a, b in v.items()} for k, v in worst.items()}
    chk.sample({"worst": chk.notes["worst_difference"]})
