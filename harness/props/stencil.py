"""Correspondence between theories/Model_Stencil.v (PrimFloat instance, vm_compute) and the real MeshRegion.DDX / DDY (impl/stencil.py) on stub
regions with and without neighbours on each side; plus the statements of the stencil theorems evaluated on the implementation's results
(exact on data affine in the coordinate)."""
import random
import re

import numpy as np

import common

LOCS = ("centre", "xlow", "ylow", "corners")
SHAPE = {"centre": (0, 0), "xlow": (1, 0), "ylow": (0, 1), "corners": (1, 1)}
hx = lambda x: float(x).hex()


def rand_mla(rng, nx, ny, lo, hi):
    return {loc: [[rng.uniform(lo, hi) for _ in range(ny + SHAPE[loc][1])] for _ in range(nx + SHAPE[loc][0])] for loc in LOCS}


def tohex(d):
    return {loc: [[hx(v) for v in row] for row in d[loc]] for loc in LOCS}


def gen_cases(rng, n):
    cases = []
    for i in range(n):
        nx, ny = rng.choice([1, 2, 3, 5]), rng.choice([1, 2, 4])
        c = dict(nx=nx, ny=ny, dx=rand_mla(rng, nx, ny, 0.01, 0.2), dy=rand_mla(rng, nx, ny, 0.05, 0.5), affine=None)
        if i % 3 == 0:
            # data affine in x and in y on a grid whose spacings ARE the coordinate differences: every entry of DDX is b, of DDY is c
            a, b, cc = rng.uniform(-2, 2), rng.uniform(-3, 3), rng.uniform(-3, 3)
            xf = np.cumsum([rng.uniform(0.5, 1.5)] + [rng.uniform(0.05, 0.3) for _ in range(nx)])
            yf = np.cumsum([rng.uniform(0.5, 1.5)] + [rng.uniform(0.05, 0.3) for _ in range(ny)])
            xc, yc = 0.5 * (xf[1:] + xf[:-1]), 0.5 * (yf[1:] + yf[:-1])
            X = {"centre": xc, "xlow": xf, "ylow": xc, "corners": xf}
            Y = {"centre": yc, "xlow": yc, "ylow": yf, "corners": yf}
            c["f"] = {loc: [[a + b * X[loc][p] + cc * Y[loc][q] for q in range(ny + SHAPE[loc][1])] for p in range(nx + SHAPE[loc][0])] for loc in LOCS}
            dxc, dyc = xf[1:] - xf[:-1], yf[1:] - yf[:-1]
            dxf = np.concatenate([[2 * (xc[0] - xf[0])], xc[1:] - xc[:-1], [2 * (xf[-1] - xc[-1])]])
            dyf = np.concatenate([[2 * (yc[0] - yf[0])], yc[1:] - yc[:-1], [2 * (yf[-1] - yc[-1])]])
            DX = {"centre": dxc, "xlow": dxf, "ylow": dxc, "corners": dxf}
            DY = {"centre": dyc, "xlow": dyc, "ylow": dyf, "corners": dyf}
            c["dx"] = {loc: [[DX[loc][p] for q in range(ny + SHAPE[loc][1])] for p in range(nx + SHAPE[loc][0])] for loc in LOCS}
            c["dy"] = {loc: [[DY[loc][q] for q in range(ny + SHAPE[loc][1])] for p in range(nx + SHAPE[loc][0])] for loc in LOCS}
            c["affine"] = [b, cc]
            for side in ("inner", "outer", "lower", "upper"):
                c[side] = None
                if rng.random() < 0.5:
                    # a neighbour whose ADJACENT row / column continues the affine data at half its last cell's width beyond the shared edge; the rest of
                    # the neighbour is arbitrary, so that reading any other row shows
                    w = rng.uniform(0.05, 0.3)
                    n2x = nx if side in ("lower", "upper") else rng.choice([2, 3])
                    n2y = ny if side in ("inner", "outer") else rng.choice([2, 3])
                    nb = rand_mla(rng, n2x, n2y, -2, 2)
                    if side == "inner":
                        xin = xf[0] - w / 2
                        nb["centre"][-1] = [a + b * xin + cc * yc[q] for q in range(ny)]
                        nb["ylow"][-1] = [a + b * xin + cc * yf[q] for q in range(ny + 1)]
                        for loc in ("xlow", "corners"):
                            c["dx"][loc][0] = [xc[0] - xin] * len(c["dx"][loc][0])
                    elif side == "outer":
                        xo = xf[-1] + w / 2
                        nb["centre"][0] = [a + b * xo + cc * yc[q] for q in range(ny)]
                        nb["ylow"][0] = [a + b * xo + cc * yf[q] for q in range(ny + 1)]
                        for loc in ("xlow", "corners"):
                            c["dx"][loc][-1] = [xo - xc[-1]] * len(c["dx"][loc][-1])
                    elif side == "lower":
                        yin = yf[0] - w / 2
                        for p in range(nx):
                            nb["centre"][p][-1] = a + b * xc[p] + cc * yin
                        for p in range(nx + 1):
                            nb["xlow"][p][-1] = a + b * xf[p] + cc * yin
                        for loc in ("ylow", "corners"):
                            for row in c["dy"][loc]:
                                row[0] = yc[0] - yin
                    else:
                        yo = yf[-1] + w / 2
                        for p in range(nx):
                            nb["centre"][p][0] = a + b * xc[p] + cc * yo
                        for p in range(nx + 1):
                            nb["xlow"][p][0] = a + b * xf[p] + cc * yo
                        for loc in ("ylow", "corners"):
                            for row in c["dy"][loc]:
                                row[-1] = yo - yc[-1]
                    c[side] = dict(nx=n2x, ny=n2y, f=nb)
        else:
            c["f"] = rand_mla(rng, nx, ny, -2, 2)
            for side in ("inner", "outer", "lower", "upper"):
                if rng.random() < 0.5:
                    n2x = nx if side in ("lower", "upper") else rng.choice([1, 2, 3])
                    n2y = ny if side in ("inner", "outer") else rng.choice([1, 2, 3])
                    c[side] = dict(nx=n2x, ny=n2y, f=rand_mla(rng, n2x, n2y, -2, 2))
                else:
                    c[side] = None
        cases.append(c)
    return cases


def payload(c):
    d = dict(nx=c["nx"], ny=c["ny"], f=tohex(c["f"]), dx=tohex(c["dx"]), dy=tohex(c["dy"]))
    for side in ("inner", "outer", "lower", "upper"):
        d[side] = None if c[side] is None else dict(nx=c[side]["nx"], ny=c[side]["ny"], f=tohex(c[side]["f"]))
    return d


def fl(xs):
    return "[" + "; ".join(common.fhex(x) for x in xs) + "]"


def opt(x):
    return "None" if x is None else f"(Some {common.fhex(x)})"


def col(a, j):
    return [row[j] for row in a]


def correspondence(chk, n):
    rng = random.Random(chk.seed + 4242)
    cases = gen_cases(rng, n)
    rc, res, o, e = common.run_impl_json("impl/stencil.py", dict(cases=[payload(c) for c in cases]), timeout=900)
    if res is None or len(res) != len(cases):
        chk.tie_broken("impl/stencil.py", f"implementation run failed rc={rc}: {(o + e)[-1000:]}")
        return 0
    items = []
    for c, r in zip(cases, res):
        if "error" in r:
            chk.tie_broken("impl/stencil.py:case", f"unexpected exception {r['error']}")
            items.append("false")
            continue
        nx, ny, f, dx, dy = c["nx"], c["ny"], c["f"], c["dx"], c["dy"]
        got = {nm: {loc: [[float.fromhex(v) for v in row] for row in r[nm][loc]] for loc in LOCS} for nm in ("DDX", "DDY")}
        parts = []
        nb = lambda side, loc, sel: None if c[side] is None else sel(c[side]["f"][loc])
        # DDX: along x for every y index
        for j in range(ny):
            parts.append(f"leq (d_centre Fops {fl(col(f['xlow'], j))} {fl(col(dx['centre'], j))}) {fl(col(got['DDX']['centre'], j))}")
            parts.append(f"leq (d_face Fops {fl(col(f['centre'], j))} {fl(col(f['xlow'], j))} {fl(col(dx['xlow'], j))} {opt(nb('inner', 'centre', lambda a: a[-1][j]))} {opt(nb('outer', 'centre', lambda a: a[0][j]))}) {fl(col(got['DDX']['xlow'], j))}")
        for j in range(ny + 1):
            parts.append(f"leq (d_centre Fops {fl(col(f['corners'], j))} {fl(col(dx['ylow'], j))}) {fl(col(got['DDX']['ylow'], j))}")
            parts.append(f"leq (d_face Fops {fl(col(f['ylow'], j))} {fl(col(f['corners'], j))} {fl(col(dx['corners'], j))} {opt(nb('inner', 'ylow', lambda a: a[-1][j]))} {opt(nb('outer', 'ylow', lambda a: a[0][j]))}) {fl(col(got['DDX']['corners'], j))}")
        # DDY: along y for every x index
        for i in range(nx):
            parts.append(f"leq (d_centre Fops {fl(f['ylow'][i])} {fl(dy['centre'][i])}) {fl(got['DDY']['centre'][i])}")
            parts.append(f"leq (d_face Fops {fl(f['centre'][i])} {fl(f['ylow'][i])} {fl(dy['ylow'][i])} {opt(nb('lower', 'centre', lambda a: a[i][-1]))} {opt(nb('upper', 'centre', lambda a: a[i][0]))}) {fl(got['DDY']['ylow'][i])}")
        for i in range(nx + 1):
            parts.append(f"leq (d_centre Fops {fl(f['corners'][i])} {fl(dy['xlow'][i])}) {fl(got['DDY']['xlow'][i])}")
            parts.append(f"leq (d_face Fops {fl(f['xlow'][i])} {fl(f['corners'][i])} {fl(dy['corners'][i])} {opt(nb('lower', 'xlow', lambda a: a[i][-1]))} {opt(nb('upper', 'xlow', lambda a: a[i][0]))}) {fl(got['DDY']['corners'][i])}")
        items.append("(" + " && ".join(parts) + ")")
        # the theorem's statement on the implementation: exact on affine data
        if c["affine"] is not None:
            b, cc = c["affine"]
            for nm, want in (("DDX", b), ("DDY", cc)):
                for loc in LOCS:
                    a = np.array(got[nm][loc])
                    if not np.all(np.abs(a - want) <= 1e-9 * max(1.0, abs(want))):
                        chk.fail(f"stencil:not-exact-on-affine:{nm}:{loc}", f"{nm} of data affine in the coordinate is not its slope at the {loc} location (second-order stencil, one-sided half cells at the boundaries)",
                                 {"case": {k: c[k] for k in ("nx", "ny", "affine")}, "got": a.tolist(), "expected": want})
    text = ("From Coq Require Import ZArith List Bool PrimFloat.\nFrom HT Require Import Field Model_Stencil.\nImport ListNotations.\nLocal Open Scope float_scope.\n"
            "Fixpoint leq (a b : list float) : bool := match a, b with [], [] => true | x :: s, y :: t => PrimFloat.eqb x y && leq s t | _, _ => false end.\n"
            "Definition rs : list bool := [\n" + ";\n".join(items) + "].\n"
            "Eval vm_compute in (length (filter (fun b => b) rs), length rs).\n"
            "Eval vm_compute in (map fst (filter (fun x => negb (snd x)) (combine (seq 0 (length rs)) rs))).\n")
    rcq, oq, eq = common.coq_eval(f"cases_{chk.prop}_stencil", text)
    m = re.search(r"\((\d+)(?:%nat)?,\s*(\d+)(?:%nat)?\)", oq.replace("\n", " "))
    agree = int(m.group(1)) if m else 0
    if rcq != 0 or not m or m.group(1) != m.group(2):
        bad = re.findall(r"\d+", oq.split("=")[-1])[:3] if m else []
        chk.tie_broken("model:stencil", f"model (PrimFloat) and the real DDX / DDY disagree on {len(items) - agree} of {len(items)} stub regions: {(oq + eq)[-400:]}")
        chk.notes["stencil_disagreements"] = [dict(case=payload(cases[int(b)]), implementation=res[int(b)]) for b in bad if int(b) < len(cases)]
    chk.notes["stencil_correspondence"] = {"cases": len(cases), "agree": agree, "affine": sum(1 for c in cases if c["affine"] is not None)}
    return len(cases)
