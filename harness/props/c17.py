"""C17 -- geqdsk codec: Coq model vs the real writer/reader, plus the direct round-trip oracle."""
import decimal
import math
import random
import re
import struct
from concurrent.futures import ThreadPoolExecutor

import common

LEVEL = "proof"
CODE = {" ": 10, "+": 11, "-": 12, ".": 13, "E": 14, "e": 14, "\n": 15}
CTX = decimal.Context(prec=10, rounding=decimal.ROUND_HALF_EVEN, Emin=-999, Emax=999)


def codes(text):
    return [int(c) if c.isdigit() else CODE.get(c, 16) for c in text]


def dec10(x):
    """Independent (decimal module, exact) correctly rounded 10-significant-digit decimal of a binary64.
    returns (lead_space, minus, d0, frac9, eneg, e1, e2) or None when outside the format's guard."""
    neg = math.copysign(1.0, x) < 0
    if x == 0:
        return (x >= 0.0, neg, 0, [0] * 9, False, 0, 0)
    d = CTX.create_decimal(decimal.Decimal(x))
    sign, digits, exp = d.as_tuple()
    digits = list(digits) + [0] * (10 - len(digits))
    e = exp + len(d.as_tuple().digits) - 1
    if abs(e) > 99:
        return None
    return (x >= 0.0, neg, digits[0], digits[1:10], e < 0, abs(e) // 10, abs(e) % 10)


def df(t):
    ls, mi, d0, fr, en, e1, e2 = t
    b = lambda v: "true" if v else "false"
    return f"(mkdf {b(ls)} {b(mi)} {d0} [{';'.join(map(str, fr))}] {b(en)} {e1} {e2})"


def dec_value(t):
    ls, mi, d0, fr, en, e1, e2 = t
    s = ("-" if mi else "") + str(d0) + "." + "".join(map(str, fr)) + "E" + ("-" if en else "+") + f"{e1}{e2}"
    return float(s)


def rand_float(rng):
    k = rng.random()
    if k < 0.3:
        return struct.unpack("<d", struct.pack("<Q", rng.getrandbits(64)))[0]
    if k < 0.45:   # decimal ties / near-ties at the 10th digit
        m = rng.randint(10**9, 10**10 - 1)
        e = rng.randint(-20, 20)
        return float(f"{m}5E{e - 10}") * rng.choice([1, -1])
    if k < 0.55:
        return rng.choice([1.0, -1.0]) * 10.0 ** rng.randint(-99, 99)
    if k < 0.6:
        return rng.choice([0.0, -0.0, 9.9999999995, 9.99999999949999, 0.99999999995, 1e-99, 9.999999999e99, -9.9999999995e-5])
    return rng.uniform(-1, 1) * 10.0 ** rng.randint(-12, 12)


def in_guard(x):
    return math.isfinite(x) and dec10(x) is not None


def rand_data(rng, nx, ny, optional):
    rf = lambda: next(x for x in iter(lambda: rand_float(rng), None) if in_guard(x))
    d = dict(nx=nx, ny=ny)
    for k in ("rdim", "zdim", "rcentr", "bcentr", "rleft", "zmid", "rmagx", "zmagx", "simagx", "sibdry", "cpasma"):
        d[k] = rf()
    for k in ("fpol", "pres", "qpsi"):
        d[k] = [rf() for _ in range(nx)]
    if optional & 1:
        d["ffprime"] = [rf() for _ in range(nx)]
    if optional & 2:
        d["pprime"] = [rf() for _ in range(nx)]
    d["psi"] = [[rf() for _ in range(ny)] for _ in range(nx)]
    if optional & 4:
        n = rng.randint(1, 7)
        d["rbdry"], d["zbdry"] = [rf() for _ in range(n)], [rf() for _ in range(n)]
    if optional & 8:
        n = rng.randint(1, 7)
        d["rlim"], d["zlim"] = [rf() for _ in range(n)], [rf() for _ in range(n)]
    return d


def gdata_coq(d):
    z = dec10(0.0)
    L = lambda xs: "[" + "; ".join(df(dec10(x)) for x in xs) + "]"
    P = lambda rs, zs: "[" + "; ".join(f"({df(dec10(r))}, {df(dec10(zz))})" for r, zz in zip(rs, zs)) + "]"
    nx = d["nx"]
    psi = "[" + "; ".join(L(row) for row in d["psi"]) + "]"
    sc = " ".join(df(dec10(d[k])) for k in ("rdim", "zdim", "rcentr", "rleft", "zmid", "rmagx", "zmagx", "simagx", "sibdry", "bcentr", "cpasma"))
    return (f"(mkg {nx} {d['ny']} {sc} {L(d['fpol'])} {L(d['pres'])} {L(d.get('ffprime', [0.0] * nx))} {L(d.get('pprime', [0.0] * nx))} "
            f"{psi} {L(d['qpsi'])} {P(d.get('rbdry', []), d.get('zbdry', []))} {P(d.get('rlim', []), d.get('zlim', []))})")


def parse_nat_lists(out):
    """All `= [ ... ] : list nat` blocks of a coqc output, in order."""
    flat = out.replace("\n", " ")
    return [[int(x) for x in re.findall(r"\d+", m)] for m in re.findall(r"=\s*\[([^\]]*)\]\s*:\s*list nat", flat)]


def decode_tokens(enc):
    toks, i = [], 0
    while i < len(enc):
        if enc[i] == 21:
            neg = enc[i + 1]; i += 2
            ip = []
            while enc[i] != 23:
                ip.append(enc[i]); i += 1
            i += 1
            fp = []
            while enc[i] != 24:
                fp.append(enc[i]); i += 1
            en, a, b = enc[i + 1:i + 4]; i += 4
            s = ("-" if neg else "") + "".join(map(str, ip)) + "." + "".join(map(str, fp)) + "E" + ("-" if en else "+") + f"{a}{b}"
            toks.append(["f", float(s).hex()])
        elif enc[i] == 22:
            neg = enc[i + 1]; i += 2
            ds = []
            while i < len(enc) and enc[i] < 10:
                ds.append(enc[i]); i += 1
            toks.append(["i", (-1 if neg else 1) * int("".join(map(str, ds)))])
        else:
            raise ValueError(f"bad token encoding at {i}: {enc[i:i+5]}")
    return toks


def run(chk):
    chk.trust("hand model theories/Model_Geqdsk.v tied to the code by this correspondence",
              "C printf '%1.9E' (correct rounding) and Python float()/int() parsing are modelled, not verified: checked against the decimal module on every run",
              "the header line is modelled too (theories/Model_GeqdskHeader.v: format string and str.split / int of the reader); the writer's pre-processing of label / shot / time (defaults, cut to 12 characters, int -> text) is repeated in the harness")
    chk.assume("guard of the format: 1 <= nx, ny <= 999, every value finite with decimal exponent in [-99, 99], at most 9999 boundary/limiter points")
    chk.coq()
    rng = random.Random(chk.seed)
    nf = 1500 if chk.tier == "quick" else 20000
    floats = []
    while len(floats) < nf:
        x = rand_float(rng)
        if in_guard(x):
            floats.append(x)
    sizes = [(1, 1), (2, 3), (5, 5), (6, 4), (7, 11), (3, 1), (1, 6), (9, 7)] if chk.tier == "quick" else \
        [(1, 1), (2, 3), (5, 5), (6, 4), (7, 11), (3, 1), (1, 6), (9, 7), (10, 10), (13, 17), (4, 25), (31, 2), (16, 16)]
    files = []
    for i, (nx, ny) in enumerate(sizes):
        kw = [{}, {"label": "ABCDEFGHIJK"}, {"shot": 12345}, {"time": 250}, {"label": "X", "shot": 7, "time": 3}][i % 5]
        files.append(dict(data=rand_data(rng, nx, ny, optional=rng.randint(0, 15) if i else 0), kw=kw))
    files.append(dict(data=rand_data(rng, 4, 3, optional=15), kw={"label": "LONGLABEL_TWELVE"}))
    files.append(dict(data=rand_data(rng, 3, 4, optional=12), kw={"shot": 1234567, "time": 1234}))
    # texts for the reader: Fortran style fields, signs, lowercase e, junk
    texts = []
    for _ in range(10 if chk.tier == "quick" else 60):
        n = rng.randint(1, 23)
        parts = []
        for k in range(n):
            x = rand_float(rng) if rng.random() < 0.8 else 0.0
            if not in_guard(x):
                x = 1.5
            t = dec10(x)
            style = rng.random()
            if style < 0.5:      # Fortran e16.9: 0.dddddddddE+XX, width 16, no separator
                m = f"{abs(x):.8E}" if x else "0.00000000E+00"
                mant, ex = m.split("E")
                exn = int(ex) + 1 if x else 0
                if abs(exn) > 99:
                    exn = 0
                parts.append(("-" if x < 0 else " ") + "0." + mant.replace(".", "") + ("E" if rng.random() < 0.7 else "e") + ("-" if exn < 0 else "+") + f"{abs(exn):02d}")
            elif style < 0.8:
                parts.append(("+" if rng.random() < 0.3 and x >= 0 else "") + ("%1.9E" % x) + (" " if rng.random() < 0.5 else ""))
            else:
                parts.append("   " + str(rng.randint(0, 5000)) + " ")
            if rng.random() < 0.2:
                parts.append("\n")
        texts.append("".join(parts))
    alphabet = " +-.Ee0123456789\nx"
    for _ in range(10 if chk.tier == "quick" else 80):
        texts.append("".join(rng.choice(alphabet) for _ in range(rng.randint(1, 60))))
    texts += ["1.0E+100 2", " 1.5E+00-2.5E-01", "12 .5E+00 3.E+00 4.5E+0 6.5E+001", "- 1 +2 -3", "1.2.3E+00", ""]
    # read_geqdsk axis mapping
    axes_data = [dict(nx=5, ny=7, rdim=1.25, zdim=2.5, rleft=0.75, zmid=0.3), dict(nx=4, ny=4, rdim=2.0, zdim=1.0, rleft=1.0, zmid=-0.4),
                 dict(nx=6, ny=3, rdim=0.5, zdim=3.0, rleft=2.0, zmid=1.1)]
    axes_req = []
    for a in axes_data:
        d = rand_data(rng, a["nx"], a["ny"], optional=8)
        d.update(a)
        d["simagx"], d["sibdry"] = 0.25, -1.5
        axes_req.append(d)
    # limiter contours as real files have them: finely resolved (the last point a few mm from the first, NOT equal to it), exactly closed, a triangle:
    # the wall read_geqdsk hands on is the limiter of the file, vertex for vertex
    for kind in ("fine", "closed", "triangle"):
        d = rand_data(rng, 5, 5, optional=8)
        d.update(axes_data[0], nx=5, ny=5)
        d["simagx"], d["sibdry"] = 0.25, -1.5
        if kind == "triangle":
            pts = [(1.0, -0.5), (1.8, -0.5), (1.4, 0.6)]
        else:
            m = 40
            pts = [(1.4 + 0.4 * math.cos(2 * math.pi * k / m), 0.5 * math.sin(2 * math.pi * k / m)) for k in range(m)]
            if kind == "fine":
                pts.append((1.4 + 0.4 * math.cos(-0.012), 0.5 * math.sin(-0.012)))      # 6 mm short of the first point
            else:
                pts.append(pts[0])
        d["rlim"], d["zlim"] = [p[0] for p in pts], [p[1] for p in pts]
        axes_req.append(d)
    rc, res, o, e = common.run_impl_json("impl/geqdsk.py", dict(f2s=[x.hex() for x in floats], files=files, texts=texts), timeout=900)
    if res is None:
        chk.tie_broken("impl/geqdsk.py", f"implementation run failed rc={rc}: {(o + e)[-1500:]}")
        return
    # second call: axes texts are the implementation's own written files
    axes_texts = []
    rc2, res2, o2, e2 = common.run_impl_json("impl/geqdsk.py", dict(files=[dict(data=d, kw={}) for d in axes_req]), timeout=300)
    if res2:
        axes_texts = [f.get("text", "") for f in res2["files"]]
        rc3, res3, o3, e3 = common.run_impl_json("impl/geqdsk.py", dict(axes_texts=axes_texts), timeout=300)
    # ---------------- 1. f2s: model rendering == implementation string
    shards = [list(range(k, min(k + 500, nf))) for k in range(0, nf, 500)]

    def f2s_shard(ix):
        idx, sh = ix
        items = ";\n".join(f"check_f2s {df(dec10(floats[i]))} [{';'.join(map(str, codes(res['f2s'][i])))}]" for i in sh)
        text = ("From Coq Require Import List. Import ListNotations.\nFrom HT Require Import Model_Geqdsk Check_Geqdsk.\n"
                f"Definition rs : list bool := [\n{items}].\nEval vm_compute in (ntrue rs :: length rs :: falses 0 rs).")
        return common.coq_eval(f"cases_C17_f2s_{idx}", text)

    with common.CoqLock():
        common.coq_makefile()
        common.run_group(["make", "-j4", "theories/Check_Geqdsk.vo"], 600, cwd=common.COQ)
    with ThreadPoolExecutor(max_workers=8) as ex:
        outs = list(ex.map(f2s_shard, enumerate(shards)))
    agree = total = 0
    for sh, (rcq, oq, eq) in zip(shards, outs):
        ls = parse_nat_lists(oq)
        if rcq != 0 or not ls:
            chk.tie_broken("correspondence:f2s:coq-eval", (oq + eq)[-1000:])
            continue
        agree += ls[0][0]; total += ls[0][1]
        for pos in ls[0][2:]:
            x = floats[sh[pos]]
            chk.fail("f2s", "f2s(x) differs from the correctly rounded 10-significant-digit field of the model", {"x": x.hex(), "repr": repr(x), "implementation": res["f2s"][sh[pos]], "model_digits": dec10(x)})
    # ---------------- 2. whole-file text and the implementation's own round trip
    body_items, body_idx = [], []
    nrt = 0
    for i, (c, r) in enumerate(zip(files, res["files"])):
        d = c["data"]
        if "write_error" in r or "read_error" in r:
            chk.fail("roundtrip:exception", f"write/read raised on in-guard data: {r.get('write_error') or r.get('read_error')}", {"data": d, "kw": c["kw"]})
            continue
        text = r["text"]
        body = text.split("\n", 1)[1]
        body_items.append(f"check_body {gdata_coq(d)} [{';'.join(map(str, codes(body)))}]")
        body_idx.append(i)
        back = r["read"]
        exp = {k: d[k] for k in ("rdim", "zdim", "rcentr", "bcentr", "rleft", "zmid", "rmagx", "zmagx", "simagx", "sibdry", "cpasma", "fpol", "pres", "qpsi", "psi")}
        exp["ffprime"] = d.get("ffprime", [0.0] * d["nx"]); exp["pprime"] = d.get("pprime", [0.0] * d["nx"])
        for k in ("rbdry", "zbdry", "rlim", "zlim"):
            if k in d:
                exp[k] = d[k]
        bad = []
        if back.get("nx") != d["nx"] or back.get("ny") != d["ny"]:
            bad.append(("nx,ny", (back.get("nx"), back.get("ny"))))
        for k, v in exp.items():
            if k not in back:
                bad.append((k, "missing")); continue
            fl = lambda z: [y for x in z for y in (fl(x) if isinstance(x, list) else [x])]
            a, b = fl(v if isinstance(v, list) else [v]), fl(back[k] if isinstance(back[k], list) else [back[k]])
            want = [dec_value(dec10(x)) for x in a]
            if len(a) != len(b) or any(not (w == g) for w, g in zip(want, b)) or (k == "psi" and (len(back[k]) != d["nx"] or len(back[k][0]) != d["ny"])):
                bad.append((k, {"expected_rounded": want[:6], "got": b[:6]}))
        for k in ("rbdry", "zbdry", "rlim", "zlim"):
            if k in back and k not in d:
                bad.append((k, "present although not written"))
        nrt += 1
        if bad:
            chk.fail("roundtrip:values", f"read(write(data)) differs from data rounded to 10 significant digits in {[b[0] for b in bad]}", {"data": d, "kw": c["kw"], "differences": bad[:4], "header": text.split(chr(10))[0]})
    # ---------------- 2b. the header line: model text for the same fields = the writer's first line; model reader on it = (nx, ny)
    import datetime
    hdr_items, hdr_idx = [], []
    for i, (c, r) in enumerate(zip(files, res["files"])):
        if "text" not in r:
            continue
        kw = c["kw"]
        # the writer's own pre-processing of its keyword arguments (defaults, label cut to 12 characters, int -> text), then the format string is the model's
        label = kw.get("label") or "FREEGS"
        if len(label) > 11:
            label = label[0:12]
        shot = kw.get("shot") or 0
        shot = "# {:d}".format(shot) if isinstance(shot, int) else shot
        tm = kw.get("time") or 0
        tm = "  {:d}ms".format(tm) if isinstance(tm, int) else tm
        date = datetime.date.today().strftime("%d/%m/%Y")
        line = r["text"].split("\n", 1)[0] + "\n"
        L = lambda t: "[" + ";".join(map(str, codes(t))) + "]"
        hdr_items.append(f"check_header {L(label)} {L(date)} {L(shot)} {L(tm)} {c['data']['nx']} {c['data']['ny']} {L(line)} && check_read_header {L(line)} {c['data']['nx']} {c['data']['ny']}")
        hdr_idx.append(i)
    text = ("From Coq Require Import List Bool. Import ListNotations.\nFrom HT Require Import Model_Geqdsk Check_Geqdsk.\n"
            "Definition rs : list bool := [\n" + ";\n".join(hdr_items) + "].\nEval vm_compute in (ntrue rs :: length rs :: falses 0 rs).")
    rcq, oq, eq = common.coq_eval("cases_C17_header", text)
    ls = parse_nat_lists(oq)
    nhdr = 0
    if rcq != 0 or not ls:
        chk.tie_broken("correspondence:header:coq-eval", (oq + eq)[-1000:])
    else:
        nhdr = ls[0][0]
        for pos in ls[0][2:]:
            i = hdr_idx[pos]
            chk.fail("writer-text:header", "the first line written by _geqdsk.write differs from the model's header for the same fields, or the model reader does not recover nx, ny from it",
                     {"kw": files[i]["kw"], "nx": files[i]["data"]["nx"], "ny": files[i]["data"]["ny"], "implementation_header": res["files"][i]["text"].split(chr(10))[0]})
    chk.notes["header_correspondence"] = {"files": len(hdr_items), "agree": nhdr}
    text = ("From Coq Require Import List. Import ListNotations.\nFrom HT Require Import Model_Geqdsk Check_Geqdsk.\n"
            "Definition rs : list bool := [\n" + ";\n".join(body_items) + "].\nEval vm_compute in (ntrue rs :: length rs :: falses 0 rs).")
    rcq, oq, eq = common.coq_eval("cases_C17_body", text)
    ls = parse_nat_lists(oq)
    nbody = 0
    if rcq != 0 or not ls:
        chk.tie_broken("correspondence:body:coq-eval", (oq + eq)[-1000:])
    else:
        nbody = ls[0][0]
        for pos in ls[0][2:]:
            i = body_idx[pos]
            chk.fail("writer-text", "text written by _geqdsk.write differs from the model's file_body", {"data": files[i]["data"], "kw": files[i]["kw"], "implementation_text": res["files"][i]["text"][:600]})
    # ---------------- 3. reader tokens
    all_texts = texts + [r["text"].split("\n", 1)[1] for r in res["files"] if "text" in r][:4]
    rc4, res4, o4, e4 = common.run_impl_json("impl/geqdsk.py", dict(texts=all_texts), timeout=300)
    evals = "\n".join(f"Eval vm_compute in (enc_toks (tokenize (decode [{';'.join(map(str, codes(t)))}])))." for t in all_texts)
    rcq, oq, eq = common.coq_eval("cases_C17_tok", "From Coq Require Import List. Import ListNotations.\nFrom HT Require Import Model_Geqdsk Check_Geqdsk.\n" + evals)
    ls = parse_nat_lists(oq)
    ntok = 0
    if rcq != 0 or res4 is None or len(ls) != len(all_texts):
        chk.tie_broken("correspondence:tokens:coq-eval", f"{len(ls)} blocks for {len(all_texts)} texts; " + (oq + eq)[-800:])
    else:
        for t, enc, impl in zip(all_texts, ls, res4["tokens"]):
            model = decode_tokens(enc)
            if isinstance(impl, dict) or model != impl:
                chk.fail("reader-tokens", "next_value yields different values than the model's tokenizer", {"text": t, "implementation": impl, "model": model})
            else:
                ntok += 1
    # ---------------- 4. read_geqdsk maps the file onto R, Z, psi, psi1D, wall as the format defines
    nax = 0
    if res2 and axes_texts and res3:
        for d, a, t in zip(axes_req, res3["axes"], axes_texts):
            if "error" in a:
                chk.fail("read_geqdsk:exception", a["error"], {"data": d}); continue
            r = lambda x: dec_value(dec10(x))
            nx, ny = d["nx"], d["ny"]
            R = [r(d["rleft"]) + i * r(d["rdim"]) / (nx - 1) for i in range(nx)]
            Z = [r(d["zmid"]) - 0.5 * r(d["zdim"]) + j * r(d["zdim"]) / (ny - 1) for j in range(ny)]
            p1 = [r(d["simagx"]) + i * (r(d["sibdry"]) - r(d["simagx"])) / (nx - 1) for i in range(nx)]
            close = lambda u, v: len(u) == len(v) and all(abs(x - y) <= 1e-12 * max(1, abs(y)) for x, y in zip(u, v))
            bad = []
            if not close(a["R1D"], R): bad.append("R1D")
            if not close(a["Z1D"], Z): bad.append("Z1D")
            if not close(a["psi1D"], p1): bad.append("psi1D")
            if a["psi2D"] != [[r(x) for x in row] for row in d["psi"]]: bad.append("psi2D")
            if a["wall"] != [[r(x), r(y)] for x, y in zip(d["rlim"], d["zlim"])]: bad.append("wall")
            if a["fpol"] != [r(x) for x in d["fpol"]] or a["pressure"] != [r(x) for x in d["pres"]]: bad.append("profiles")
            if not a.get("verbatim"): bad.append("geqdsk_input not verbatim")
            nax += 1
            if bad:
                chk.fail("read_geqdsk:mapping", f"read_geqdsk maps the file wrongly: {bad}", {"header_values": {k: d[k] for k in ("nx", "ny", "rdim", "zdim", "rleft", "zmid")}, "got_Z1D": a["Z1D"], "expected_Z1D": Z, "got_R1D": a["R1D"]})
    else:
        chk.tie_broken("impl/geqdsk.py:axes", "could not run the read_geqdsk mapping oracle")
    chk.count(evaluations=total + len(body_items) + len(all_texts) + nrt + nax, distinct=agree + nbody + ntok + nrt + nax)
    chk.cov["rule"] = ("f2s: random bit patterns, decimal ties at the 10th digit, powers of ten, +-0, exponents to +-99; files: sizes incl. not divisible by 5, "
                       "optional blocks on/off, header variants; reader: Fortran e16.9 abutting fields, signs, lowercase e, random junk; distinct = agreeing distinct cases")
    chk.notes["correspondence"] = {"f2s_compared": total, "f2s_agree": agree, "files_text_compared": len(body_items), "files_text_agree": nbody,
                                   "reader_texts": len(all_texts), "reader_agree": ntok, "impl_roundtrips": nrt, "read_geqdsk_mappings": nax,
                                   "file_sizes": sizes}
    chk.cov["traces_validated_against_impl"] = agree + nbody + ntok
    chk.sample({"f2s": [floats[0].hex(), res["f2s"][0]]})
    chk.sample({"reader_text": texts[0][:200]})
