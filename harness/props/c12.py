"""C12 -- a valid grid or an explicit error; shipped reference inputs generate."""
import json
import os
import shutil
import subprocess
import tempfile
from concurrent.futures import ThreadPoolExecutor

import numpy as np

import common
import corpus
from common import REPO, GEN
from corpus import tok, SN, DN, CDN, nonorth
from props import c10

import pyir
import gridfile as trg

LEVEL = "proof"


def translate(chk):
    c10.translate(chk)
    try:
        text, d = trg.emit(REPO)
    except (pyir.TranslationError, SyntaxError, OSError) as e:
        chk.tie_broken("translate/gridfile.py", f"translator refused the source: {e}")
        return None
    common.write_if_changed(os.path.join(GEN, "Gen_GridFile.v"), text)
    return d


CONDITIONAL = {"psi_axis_gfile", "psi_bdry_gfile", "pressure", "hthe", "closed_wall_R", "closed_wall_Z"}
SCALARS = {"nx", "ny", "y_boundary_guards", "ixseps1", "ixseps2", "jyseps1_1", "jyseps2_1", "jyseps1_2", "jyseps2_2", "ny_inner", "Bt_axis", "psi_axis", "psi_bdry", "psi_axis_gfile", "psi_bdry_gfile",
           "curvature_type"}
XARRAYS = {"total_poloidal_distance", "ShiftAngle"}
NAN_OK = {"chi", "ShiftAngle", "total_poloidal_distance"}


def validity(F, documented, orthogonal=True, has_pressure=True, has_wall=True):
    """list of (key, message) defects of a written grid file (F = variables of the file as numpy arrays / scalars)"""
    bad = []
    dims = F.get("__dims__", {})
    nx, ny, myg = int(F["nx"]), int(F["ny"]), int(F["y_boundary_guards"])
    Rc = np.asarray(F["Rxy"])
    shape2d = Rc.shape
    if shape2d[0] != nx or shape2d[1] < ny:
        bad.append(("shape:Rxy", f"Rxy has shape {shape2d} for nx={nx}, ny={ny}"))
    for v in documented:
        cond = v in CONDITIONAL
        if v not in F:
            if cond and ((v == "pressure" and not has_pressure) or (v == "hthe" and not orthogonal) or (v.startswith("psi_") and v.endswith("gfile")) or (v.startswith("closed_wall") and not has_wall)):
                continue
            bad.append((f"missing:{v}", f"documented variable {v} is not in the grid file"))
            continue
        a = F[v]
        if v in SCALARS:
            if np.ndim(a) != 0 and not isinstance(a, str):
                bad.append((f"shape:{v}", f"{v} should be a scalar"))
            continue
        a = np.asarray(a, dtype=float)
        if v in XARRAYS:
            if a.shape != (nx,):
                bad.append((f"shape:{v}", f"{v} has shape {a.shape}, expected ({nx},)"))
        elif v.startswith("closed_wall"):
            if a.ndim != 1:
                bad.append((f"shape:{v}", f"{v} is not one-dimensional"))
        elif a.shape != shape2d:
            bad.append((f"shape:{v}", f"{v} has shape {a.shape}, expected {shape2d}"))
        if v not in NAN_OK and not np.all(np.isfinite(a)):
            bad.append((f"not-finite:{v}", f"{v} has {int((~np.isfinite(a)).sum())} non-finite values"))
    # staggered copies of the 2-d fields
    for v in documented:
        if v in F and v not in SCALARS and v not in XARRAYS and not v.startswith("closed_wall") and v not in ("penalty_mask",) and not v.endswith("corners"):
            for suf in ("_xlow", "_ylow"):
                if v + suf in F:
                    a = np.asarray(F[v + suf], dtype=float)
                    if a.shape != shape2d:
                        bad.append((f"shape:{v}{suf}", f"{v}{suf} has shape {a.shape}"))
                    if v not in NAN_OK and not np.all(np.isfinite(a)):
                        bad.append((f"not-finite:{v}{suf}", f"{v}{suf} has non-finite values"))
    # documented NaNs only where documented: ShiftAngle / total_poloidal_distance finite exactly on closed surfaces
    ix = min(int(F["ixseps1"]), int(F["ixseps2"]))
    for v in XARRAYS:
        if v in F:
            a = np.asarray(F[v], dtype=float)
            if a.shape == (nx,) and not (np.all(np.isfinite(a[:max(ix, 0)])) and np.all(np.isnan(a[max(ix, 0):]))):
                bad.append((f"nan-pattern:{v}", f"{v} is not finite exactly on the closed flux surfaces (x < {ix})"))
    for v in ("hy", "dy"):
        if v in F and not np.all(np.asarray(F[v]) > 0):
            bad.append((f"not-positive:{v}", f"{v} is not strictly positive"))
    if "dx" in F:
        dx = np.asarray(F["dx"])
        if not (np.all(dx > 0) or np.all(dx < 0)):
            bad.append(("dx-sign", "dx changes sign or vanishes"))
    # the radial coordinate: psixy is strictly monotone in x along every y index (cells of one radial segment must not lie inside the psi range of another)
    if "psixy" in F:
        px = np.asarray(F["psixy"], dtype=float)
        if px.ndim == 2 and px.shape[0] > 1 and np.all(np.isfinite(px)):
            d_ = np.diff(px, axis=0)
            colbad = ~(np.all(d_ > 0, axis=0) | np.all(d_ < 0, axis=0))
            if colbad.any():
                j = int(np.argmax(colbad))
                bad.append(("psixy-not-monotone-in-x", f"psixy is not strictly monotone in x at {int(colbad.sum())} y indices, e.g. y={j}: {np.round(px[:, j], 5).tolist()}"))
    # a staggered copy that is identically zero although the field is not: never computed
    for v in documented:
        if v in F and v not in SCALARS and v not in XARRAYS and not v.startswith("closed_wall") and not v.endswith("corners") and v != "penalty_mask":
            a = np.asarray(F[v], dtype=float)
            if a.shape == shape2d and np.nanmax(np.abs(a)) > 0:
                for suf in ("_xlow", "_ylow"):
                    if v + suf in F and np.all(np.asarray(F[v + suf], dtype=float) == 0):
                        bad.append((f"zero-staggered-copy:{'orthogonal' if orthogonal else 'nonorthogonal'}:{v}{suf}", f"{v}{suf} is identically zero although {v} is not"))
    # no cell folded over: the corner quadrilateral of every cell has the same orientation
    try:
        c = [(np.asarray(F[f"Rxy{s}"]), np.asarray(F[f"Zxy{s}"])) for s in ("_corners", "_lower_right_corners", "_upper_right_corners", "_upper_left_corners")]
        area = 0.0
        for k in range(4):
            (r1, z1), (r2, z2) = c[k], c[(k + 1) % 4]
            area = area + (r1 * z2 - r2 * z1)
        area = 0.5 * area
        if not (np.all(area > 0) or np.all(area < 0)):
            bad.append(("folded-cell", f"{int(min((area > 0).sum(), (area < 0).sum()))} cells have the opposite orientation to the others (or zero area)"))
    except KeyError as e:
        bad.append(("missing:corners", f"corner arrays missing: {e}"))
    return bad


def envelope_configs(tier):
    E = []

    def add(name, fam, base, expect=None, **kw):
        c = tok("c12_" + name, fam, base, **kw)
        c["tiers"] = []
        c["expect"] = expect
        E.append(c)
    add("tiny_ny", "lsn", dict(SN, ny_inner_divertor=1, ny_sol=2, ny_outer_divertor=1))
    add("nx1", "lsn", dict(SN, nx_core=1, nx_sol=1))
    add("sol_beyond_domain", "lsn", dict(SN, psinorm_sol=2.2))
    add("core_to_axis", "lsn", dict(SN, psinorm_core=0.02))
    add("huge_xpoint_spacing", "lsn", dict(SN, xpoint_poloidal_spacing_length=3.0))
    add("tiny_target_spacing", "lsn", dict(SN, target_all_poloidal_spacing_length=0.002))
    add("many_guards", "lsn", dict(SN, y_boundary_guards=6))
    add("coarse_finecontour", "lsn", dict(SN, finecontour_Nfine=6))
    add("separatrix_packing", "lsn", dict(SN, psi_spacing_separatrix_multiplier=0.02))
    add("nonorth_tiny_spacing", "lsn", dict(nonorth(SN), nonorthogonal_target_all_poloidal_spacing_length=0.01, nonorthogonal_xpoint_poloidal_spacing_length=0.01))
    # a slightly disconnected double null requested as a connected one (nx_inter_sep = 0): refused unless the secondary X-point is inside the first SOL cell
    ex = dict(CDN, nx_core=5, nx_sol=5)
    add("udn_as_connected", "udn", ex)
    add("udn_as_connected_reverse_current", "udn", dict(ex, reverse_current=True))
    add("udn_as_connected_psi_increasing", "udn", ex, sign=-1.0)
    add("udn_as_connected_psi_increasing_reverse_current", "udn", dict(ex, reverse_current=True), sign=-1.0)
    # the rarely used non-linear smoothing of the curvature, with and without a toroidal field (Bt = 0 makes a curvature component identically zero)
    add("smoothnl", "lsn", dict(SN, curvature_smoothing="smoothnl"))
    add("smoothnl_noBt", "lsn", dict(SN, curvature_smoothing="smoothnl"), fpol="none", pressure=False)
    add("negative_ny", "lsn", dict(SN, ny_sol=-4), expect="error")
    add("float_nx", "lsn", dict(SN, nx_core=2.5), expect="error")
    add("bad_curvature_type", "lsn", dict(SN, curvature_type="bxkappa"), expect="error")
    add("bad_interpolation", "lsn", dict(SN, psi_interpolation_method="cubic"), expect="error")
    add("zero_processors", "lsn", dict(SN, number_of_processors=0), expect="error")
    add("dn_reversed_ranges", "cdn", dict(CDN, psinorm_core=1.1), expect="error")
    if tier == "thorough":
        add("udn_tight", "udn", dict(DN, psinorm_sol=1.02))
        add("pf_beyond", "lsn", dict(SN, psinorm_pf=0.3))
        add("psinorm_sol_below_one", "lsn", dict(SN, psinorm_sol=0.99), expect="error")
        add("huge_ny", "lsn", dict(SN, ny_inner_divertor=40, ny_sol=80, ny_outer_divertor=40))
        add("cdn_coarse", "cdn", dict(CDN, finecontour_Nfine=8))
    return E


def run_script(args, cwd, timeout=1500, module="hypnotoad_geqdsk"):
    env = dict(os.environ)
    env["PYTHONPATH"] = REPO + os.pathsep + os.path.join(common.VERIF, "_deps")
    env["MPLBACKEND"] = "Agg"
    try:
        p = subprocess.run([common.PY, "-c", f"import sys; sys.argv = {['prog'] + args!r}; from hypnotoad.scripts import {module} as m; m.main()"], cwd=cwd, env=env,
                           stdout=subprocess.PIPE, stderr=subprocess.PIPE, text=True, timeout=timeout, start_new_session=True)
        return p.returncode, (p.stdout[-1500:] + p.stderr[-2500:])
    except subprocess.TimeoutExpired:
        return None, "TIMEOUT"


def read_file(path):
    from netCDF4 import Dataset
    F = {}
    with Dataset(path) as ds:
        for k, v in ds.variables.items():
            a = v[...]
            if v.dtype is str or (hasattr(a, "dtype") and a.dtype.kind in "SUO"):
                F[k] = str(a)
            else:
                F[k] = np.ma.filled(a.astype(float), np.nan) if hasattr(a, "filled") else np.array(a)
    return F


def run(chk):
    import warnings
    warnings.filterwarnings("ignore")
    np.seterr(all="ignore")
    tr = translate(chk)
    chk.trust("translate/gridfile.py (documented variable list parsed from doc/grid-file.rst; variables written, run-time guards, option checks extracted from mesh.py / hypnotoad_geqdsk.py)",
              "PARTIAL: 'either an exception or a valid file for ANY input' is not a theorem about a model -- the numerical pipeline (ODE integration, root finding, splines) is runtime "
              "behaviour; proved are the variable-set inclusion, hy/dy positivity from the strict distance guard, and the option-consistency refusal; the rest is decided by running the real "
              "pipeline on configurations in and around the supported envelope and on the shipped examples and applying the validity oracle to every file written")
    chk.assume("a generation that neither finishes nor raises within 25 minutes is reported as a violation (hang)")
    chk.coq()
    documented = tr["documented"] if tr else []
    n = 0
    # ---- every corpus grid is a valid file
    outcomes = {}
    for g in corpus.get(tier=chk.tier):
        if not g.ok:
            continue
        uo = g.d["mesh"]["user_options"]
        has_p = g.cfg["kind"] == "tokamak" and g.d["inputs"].get("pressure") is not None
        for key, msg in validity(g.d["file"], documented, orthogonal=bool(uo.get("orthogonal", True)), has_pressure=has_p, has_wall=g.cfg["kind"] == "tokamak"):
            if g.cfg["kind"] != "tokamak" and key.startswith("missing:") and key.split(":")[1] in ("psi_axis", "psi_bdry", "pressure", "Bt_axis", "closed_wall_R", "closed_wall_Z"):
                continue
            chk.fail(f"malformed:{key}", "a grid file written without any error is malformed: " + msg, {"grid": g.name, "config": g.cfg})
        n += len(documented)
        # chi: finite exactly on the closed field lines (core regions inside the primary separatrix), NaN elsewhere -- from the assembled file and the region layout
        # (a single null written with start_at_upper_outer=True gets its own key: the region order no longer matches the integer ladder, finding F27)
        eqnames = " ".join(r["eqname"] for r in g.d["regions"].values())
        single_null = g.cfg["kind"] == "tokamak" and not ("upper" in eqnames and "lower" in eqnames)
        f27 = ":sn-start_at_upper_outer" if (single_null and g.cfg.get("options", {}).get("start_at_upper_outer")) else ""
        for suf in ("", "_xlow", "_ylow"):
            if g.cfg["kind"] == "tokamak" and "chi" + suf in g.d["file"]:
                chi = np.asarray(g.d["file"]["chi" + suf], dtype=float)
                for rid, r in g.d["regions"].items():
                    (x0, x1), (y0, y1) = g.d["mesh"]["region_indices"][rid]
                    blk = chi[x0:x1, y0:y1]
                    closed = ("core" in r["eqname"]) and r["radialIndex"] < r["separatrix_radial_index"]
                    n += blk.size
                    if closed and not np.all(np.isfinite(blk)):
                        chk.fail(f"malformed:nan-pattern:chi{suf}:closed-surface{f27}", f"chi{suf} is not finite on closed field lines", {"grid": g.name, "region": r["name"], "non_finite": int((~np.isfinite(blk)).sum()), "of": int(blk.size)})
                    if not closed and suf != "_xlow" and not np.all(np.isnan(blk)):
                        # (the x-face copy of the innermost open surface is the separatrix itself: not judged)
                        chk.fail(f"malformed:nan-pattern:chi{suf}:open-field-line{f27}", f"chi{suf} is not NaN on open field lines (it is documented as undefined there)", {"grid": g.name, "region": r["name"], "finite": int(np.isfinite(blk).sum())})
    # ---- around the envelope: an exception or a valid file
    E = envelope_configs(chk.tier)
    for c, g in zip(E, corpus.get(names=[], extra_cfgs=E)):
        n += 1
        if g.ok:
            outcomes[c["name"]] = "grid"
            if c.get("expect") == "error":
                chk.fail(f"invalid-option-accepted:{c['name']}", "an invalid option value is accepted and a grid is written", {"config": c})
            uo = g.d["mesh"]["user_options"]
            for key, msg in validity(g.d["file"], documented, orthogonal=bool(uo.get("orthogonal", True)), has_pressure=g.d["inputs"].get("pressure") is not None):
                chk.fail(f"malformed:{key}", "generation did not raise but the grid file is malformed: " + msg, {"grid": c["name"], "config": c})
            n += len(documented)
        else:
            last = g.error.strip().splitlines()[-1][:160] if g.error.strip() else "?"
            outcomes[c["name"]] = "error: " + last
            if "TIMEOUT" in g.error:
                chk.fail(f"hang:{c['name']}", "generation neither finished nor raised", {"config": c})
    chk.notes["envelope_outcomes"] = outcomes
    # ---- command line: unknown / inconsistent options are rejected; the shipped configurations generate
    tmp = tempfile.mkdtemp(prefix="c12_")
    try:
        import yaml
        from props import c14
        # a geqdsk file of the connected-double-null and of the lower-double-null family, written with the repository's own writer
        gf = {}
        for fam in ("cdn", "ldn", "lsn"):
            wd = os.path.join(tmp, "g_" + fam)
            rc, r, log = c14.impl("roundtrip", dict(family=fam, sign=1.0, options={}, raw_yaml="{}\n", workdir=wd, only_write=True), 300)
            gf[fam] = os.path.join(wd, "input.geqdsk")
        jobs = []

        def job(name, fam, ytext, expect):
            d = os.path.join(tmp, name)
            os.makedirs(d, exist_ok=True)
            yp = os.path.join(d, "in.yaml")
            with open(yp, "w") as f:
                f.write(ytext)
            rc, log = run_script([gf[fam], yp], d)
            return name, expect, rc, log, os.path.join(d, "bout.grd.nc"), d
        small = dict(c14.SMALL)
        specs = [("unknown-option", "lsn", yaml.dump(dict(small, no_such_option=3)), "error"),
                 ("misspelt-option", "lsn", yaml.dump(dict(small, ny_sol_=8)), "error"),
                 ("root:geqdsk_cdn.yaml", "cdn", open(os.path.join(REPO, "geqdsk_cdn.yaml")).read(), "grid"),
                 ("root:geqdsk_ldn.yaml", "ldn", open(os.path.join(REPO, "geqdsk_ldn.yaml")).read(), "grid"),
                 ("script-own-options", "lsn", yaml.dump(dict(small, grid_file="mygrid.nc", plot_regions=False, plot_mesh=False)), "grid")]
        with ThreadPoolExecutor(max_workers=5) as ex:
            res = list(ex.map(lambda s: job(*s), specs))
        for name, expect, rc, log, path, d in res:
            n += 1
            wrote = [f for f in os.listdir(d) if f.endswith(".nc")]
            outcomes["cli:" + name] = "grid" if (rc == 0 and wrote) else ("hang" if rc is None else "error: " + log.strip().splitlines()[-1][:200] if log.strip() else "error")
            if expect == "error" and rc == 0:
                chk.fail(f"cli:{name}:accepted", "the command-line entry point accepts an option file with an unknown option", {"case": name})
            if name.startswith("root:") and not (rc == 0 and wrote):
                # the reference option files are tuned for equilibria that are not available here (git-LFS pointers only): with the analytic stand-in a numerical refusal is an
                # explicit error; what must hold is that the option SET is accepted
                if any(t in log for t in ("options in the input file that are not used", "is not of type", "is not compatible with check", "not in the allowed values")):
                    chk.fail(f"shipped-config-refused:{name}", "a shipped reference option file is refused by hypnotoad-geqdsk because of its option names / values", {"case": name, "outcome": outcomes["cli:" + name]})
                continue
            if expect == "grid" and not (rc == 0 and wrote):
                chk.fail(f"shipped-config-refused:{name}" if name.startswith("root:") else f"cli:{name}:refused",
                         "a shipped reference option file (or the options the script itself reads) is refused by hypnotoad-geqdsk", {"case": name, "outcome": outcomes["cli:" + name]})
            if rc == 0 and wrote:
                F = read_file(os.path.join(d, wrote[0]))
                for key, msg in validity(F, documented, has_pressure=True):
                    chk.fail(f"malformed:{key}", "the command-line entry point wrote a malformed grid: " + msg, {"case": name})
        # examples/tokamak
        exdir = os.path.join(tmp, "examples_tokamak")
        shutil.copytree(os.path.join(REPO, "examples", "tokamak"), exdir)

        def example(geom):
            d = os.path.join(tmp, "ex_" + geom)
            shutil.copytree(exdir, d)
            env = dict(os.environ)
            env["PYTHONPATH"] = REPO
            env["MPLBACKEND"] = "Agg"
            try:
                p = subprocess.run([common.PY, "tokamak_example.py", geom, "--no-plot"], cwd=d, env=env, stdout=subprocess.PIPE, stderr=subprocess.PIPE, text=True, timeout=1500, start_new_session=True)
                return geom, p.returncode, p.stderr[-1500:], os.path.join(d, "bout.grd.nc")
            except subprocess.TimeoutExpired:
                return geom, None, "TIMEOUT", os.path.join(d, "bout.grd.nc")
        geoms = ["lsn", "cdn", "udn"] if chk.tier == "quick" else ["lsn", "usn", "cdn", "udn", "ldn", "udn2"]
        with ThreadPoolExecutor(max_workers=6) as ex:
            for geom, rc, log, path in ex.map(example, geoms):
                n += 1
                outcomes["example:" + geom] = "grid" if rc == 0 and os.path.exists(path) else f"failed rc={rc}"
                if not (rc == 0 and os.path.exists(path)):
                    chk.fail(f"shipped-example-fails:tokamak:{geom}", "a shipped example does not generate", {"example": f"examples/tokamak/tokamak_example.py {geom} --no-plot", "rc": rc, "stderr": log[-600:]})
                else:
                    for key, msg in validity(read_file(path), documented, has_pressure=False):
                        chk.fail(f"malformed:{key}", "a shipped example wrote a malformed grid: " + msg, {"example": geom})
        # examples/torpex-xpoint (needs sympy, installed from the offline wheelhouse by setup.sh into /verif/_deps)
        if os.path.isdir(os.path.join(common.VERIF, "_deps", "sympy")):
            for y in ("torpex-coils.yaml",) + (("torpex-coils-nonorth.yaml",) if chk.tier == "thorough" else ()):
                d = os.path.join(tmp, "torpex_" + y)
                shutil.copytree(os.path.join(REPO, "examples", "torpex-xpoint"), d)
                rc, log = run_script([y], d, module="hypnotoad_torpex")
                wrote = [f for f in os.listdir(d) if f.endswith(".nc")]
                n += 1
                outcomes["example:torpex:" + y] = "grid" if rc == 0 and wrote else f"failed rc={rc}: " + (log.strip().splitlines()[-1][:200] if log.strip() else "")
                if not (rc == 0 and wrote):
                    chk.fail(f"shipped-example-fails:torpex:{y}", "a shipped example does not generate", {"example": f"hypnotoad-torpex {y}", "rc": rc, "log": log[-600:]})
        else:
            chk.notes["torpex_examples"] = "skipped: sympy not available under /verif/_deps"
    finally:
        shutil.rmtree(tmp, ignore_errors=True)
    # ---- API level: inconsistent equilibrium / mesh options are refused
    rc, r, o, e = common.run_impl_json("impl/consistency.py", dict(cfg=tok("c12_cons", "lsn", dict(c14.SMALL))), timeout=600)
    if r is None:
        chk.tie_broken("impl/consistency.py", f"rc={rc}: {(o + e)[-600:]}")
    else:
        for case, outcome in r.items():
            n += 1
            outcomes["api:" + case] = outcome
            if case in ("changed:psinorm_sol", "changed:nx_core"):
                continue       # equilibrium-only options: the mesh does not use them (an ignored key, not an inconsistency between what the two objects use); observed only
            if case.startswith("changed:") and not outcome.startswith("refused"):
                chk.fail(f"inconsistent-options-accepted:{case}", "a mesh is built with an option value that differs from the one the equilibrium was created with", {"case": case, "outcome": outcome})
            if case == "same" and not outcome.startswith("accepted"):
                chk.fail("consistent-options-refused", "a mesh with the same options as the equilibrium is refused", {"outcome": outcome})
    chk.count(evaluations=n, distinct=n)
    chk.cov["rule"] = ("validity oracle (every documented variable present with the documented shape, finite except the documented NaNs and exactly there, hy, dy > 0, dx of one sign, no cell of "
                       "opposite orientation) on every corpus grid; configurations around the envelope (tiny / huge resolutions and spacings, ranges beyond the domain, many guard cells, invalid "
                       "option values): an exception or a valid file, never a hang; command line: unknown options, the script's own options, the shipped root-level option files; "
                       "examples/tokamak (and torpex when sympy is available); API: equilibrium/mesh option consistency")
    chk.notes["outcome_distribution"] = {"grid": sum(1 for v in outcomes.values() if v == "grid"), "explicit_error": sum(1 for v in outcomes.values() if v.startswith("error") or v.startswith("refused")),
                                         "other": sum(1 for v in outcomes.values() if not (v == "grid" or v.startswith("error") or v.startswith("refused") or v.startswith("accepted")))}
    chk.notes["outcomes"] = outcomes
