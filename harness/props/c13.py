"""C13 -- ParallelMap: Coq LTS model + enumeration of completion orders on the real ParallelMap + grid np=2 vs serial."""
import itertools
import json
import os
import random
import re

import numpy as np

import common
import corpus

LEVEL = "proof"


def feasible_orders(n, nproc):
    """All completion orders in which each finishing task has been taken (FIFO take, nproc in flight)."""
    out = []

    def rec(done, order):
        if len(order) == n:
            out.append(list(order)); return
        taken = min(n, nproc + len(order))
        for i in range(taken):
            if i not in done:
                rec(done | {i}, order + [i])
    rec(frozenset(), [])
    return out


def expected(n, fail):
    if fail:
        return ["exc", "TaskError", f"task {min(fail)} failed"]
    return ["ok", [[i, i * i * 3, 1.0] for i in range(n)]]


def model_schedule(n, nproc, order):
    labels = ["Take"] * min(n, nproc)
    taken = min(n, nproc)
    for i in order:
        labels.append(f"Finish {i}")
        if taken < n:
            labels.append("Take"); taken += 1
    return labels + ["MainGet"] * n


def translate(chk):
    import parmap as trp
    import pyir
    try:
        text, f = trp.emit(common.REPO)
    except (pyir.TranslationError, SyntaxError, OSError) as e:
        chk.tie_broken("translate/parmap.py", f"structure fingerprint refused parallel_map.py: {e}")
        return None
    common.write_if_changed(os.path.join(common.GEN, "Gen_ParMap.v"), text)
    return f


def run(chk):
    translate(chk)
    chk.trust("translate/parmap.py (structural facts of worker_run / __call__ / _WorkerException regenerated into Gen_ParMap.v)")
    chk.trust("hand model theories/Model_ParMap.v (anonymous workers, FIFO queues, result carried with its index) tied to the code by this correspondence",
              "multiprocessing.Queue is FIFO per producer and loses nothing; dill/pickle round-trip arguments and results faithfully (modelled, not verified)",
              "harness/impl/parmap.py realises completion orders with gate files on the real ParallelMap")
    chk.assume("OS scheduling, process start-up and pickling are outside the model; the model's steps are atomic")
    chk.coq()
    rng = random.Random(chk.seed)
    scen = []
    # exhaustive small: np in {2,3}, n <= 3 (quick) / 4 (thorough), every feasible completion order, every single failing position
    nmax = 3 if chk.tier == "quick" else 4
    for nproc in (2, 3):
        for n in range(1, nmax + 1):
            orders = feasible_orders(n, nproc)
            if chk.tier == "quick" and len(orders) > 6:
                orders = [orders[0], orders[-1]] + rng.sample(orders[1:-1], 4)
            for order in orders:
                fails = [[]] + [[k] for k in range(n)]
                if chk.tier == "quick":
                    fails = [[]] + [[k] for k in rng.sample(range(n), min(n, 2))]
                for fail in fails:
                    scen.append(dict(np=nproc, calls=[dict(n=n, order=order, fail=fail)]))
    # larger random schedules, several failing tasks
    for _ in range(6 if chk.tier == "quick" else 40):
        nproc, n = rng.randint(2, 6), rng.randint(4, 12)
        order, done = [], set()
        while len(order) < n:
            taken = min(n, nproc + len(order))
            i = rng.choice([k for k in range(taken) if k not in done])
            order.append(i); done.add(i)
        fail = sorted(rng.sample(range(n), rng.choice([0, 1, 2])))
        scen.append(dict(np=nproc, calls=[dict(n=n, order=order, fail=fail)]))
    # the same ParallelMap object used again after a failure (state left in the queues would corrupt the next call)
    for nproc in (2, 3):
        scen.append(dict(np=nproc, calls=[dict(n=3, order=[1, 0, 2] if nproc > 1 else [0, 1, 2], fail=[1]), dict(n=4, order=[0, 1, 2, 3], fail=[]),
                                           dict(n=2, order=[1, 0], fail=[0, 1]), dict(n=3, order=[0, 1, 2], fail=[])]))
    # what the failing task raises: exceptions that the standard pickle cannot send between processes (a class defined inside a function, as
    # mesh.followPerpendicular's MaxIterException; an unpicklable attribute; a constructor with a required extra argument) -- the caller must still
    # get an exception (never block), also on the re-used object
    for kind in ("local-class", "lambda-attribute", "two-arguments", "function-timed-out"):
        for nproc in (2, 3):
            for (n, order, fail) in ((1, [0], [0]), (3, [0, 1, 2], [0]), (3, [1, 0, 2], [2]), (4, [1, 0, 3, 2], [1, 3])):
                if n == 4 and nproc == 2:
                    order = [1, 0, 2, 3]
                scen.append(dict(np=nproc, calls=[dict(n=n, order=order, fail=fail, exc=kind), dict(n=2, order=[0, 1], fail=[])]))
    # several ParallelMap objects in one interpreter, each for a different equilibrium created after the previous one was deleted
    seq_scen = [dict(np=2, eq_sequence=6), dict(np=3, eq_sequence=4)]
    os.makedirs(os.path.join(common.CACHE, "c13tmp"), exist_ok=True)
    chunks = [scen[k::8] for k in range(8)]
    from concurrent.futures import ThreadPoolExecutor

    def go(ch):
        return common.run_impl_json("impl/parmap.py", ch, timeout=60 + 8 * len(ch), extra_env={"C13_TMP": os.path.join(common.CACHE, "c13tmp")})

    with ThreadPoolExecutor(max_workers=8) as ex:
        results = list(ex.map(go, chunks))
    nrun = nagree = 0
    rcs, ress, os_, es_ = common.run_impl_json("impl/parmap.py", seq_scen, timeout=120, extra_env={"C13_TMP": os.path.join(common.CACHE, "c13tmp")})
    if ress is None:
        chk.tie_broken("impl/parmap.py:eq-sequence", f"rc={rcs}: {(os_ + es_)[-600:]}")
    else:
        reused = 0
        for sc, obs in zip(seq_scen, ress):
            ids = [o[1] for o in obs]
            reused += len(ids) - len(set(ids))
            for j, (psi_own, _id, o) in enumerate(obs):
                nrun += 1
                if o[0] == "ok" and all(abs(r[2] - psi_own) < 1e-12 for r in o[1]):
                    nagree += 1
                elif o == ["timeout"]:
                    chk.fail("blocks-forever:no-failure", "a ParallelMap created after an earlier one in the same interpreter blocks", {"np": sc["np"], "position_in_sequence": j})
                else:
                    chk.fail("workers-use-another-equilibrium", "the workers of a ParallelMap evaluate with an equilibrium that is not the one it was created for (a later object in the same interpreter inherits an earlier one's state)",
                             {"np": sc["np"], "position_in_sequence": j, "psi_of_its_equilibrium": psi_own, "observed": o, "object_addresses": ids})
        chk.notes["eq_sequence"] = {"objects": sum(len(o) for o in ress), "address_reused": reused}
    for ch, (rc, res, o, e) in zip(chunks, results):
        if res is None:
            chk.tie_broken("impl/parmap.py", f"scenario runner failed rc={rc}: {(o + e)[-800:]}")
            continue
        for sc, obs in zip(ch, res):
            for call, ob in zip(sc["calls"], obs + [["not-run"]] * (len(sc["calls"]) - len(obs))):
                nrun += 1
                want = expected(call["n"], call["fail"])
                if ob == want:
                    nagree += 1
                    continue
                if call.get("exc", "module-class") != "module-class" and call["fail"] and ob[0] == "exc":
                    # an exception that cannot cross the process boundary arrives as a replacement carrying its description: still an exception
                    nagree += 1
                    continue
                first = sc["calls"].index(call) == 0
                if ob == ["timeout"]:
                    key = "blocks-forever:failing-task" if call["fail"] else "blocks-forever:no-failure"
                    if call.get("exc") == "function-timed-out":
                        key += ":function-timed-out"
                    what = f"ParallelMap.__call__ blocked (> timeout) with np={sc['np']}, n={call['n']}, failing tasks {call['fail']}: the caller must get the serial exception"
                elif ob[0] == "ok" and want[0] == "ok":
                    key, what = "wrong-positions", f"results returned in the wrong positions for completion order {call['order']} with np={sc['np']}"
                elif ob == ["not-run"]:
                    continue
                else:
                    key, what = "wrong-outcome" + ("" if first else ":reused-object"), f"caller observed {ob[:2]} but serial execution gives {want[:2]}"
                chk.fail(key, what, {"np": sc["np"], "calls": sc["calls"], "call": call, "observed": ob, "serial": want})
    # model evaluated on the same schedules (sanity of the executable model; the theorems cover all schedules)
    items = []
    for sc in scen:
        c = sc["calls"][0]
        labels = "; ".join(model_schedule(c["n"], sc["np"], c["order"]))
        fl = "[" + ";".join(map(str, c["fail"])) + "]"
        items.append(f"obs_code {c['n']} {sc['np']} {fl} [{labels}]")
    text = ("From Coq Require Import List Arith Bool. Import ListNotations.\nFrom HT Require Import Model_ParMap.\n"
            "Definition outcome (fl : list nat) (i : nat) : outc nat nat := if existsb (Nat.eqb i) fl then Err i else Ok i.\n"
            "Definition obs_code (n np : nat) (fl : list nat) (ls : list label) : nat :=\n"
            "  match run nat nat (outcome fl) n true (init nat nat n np) ls with\n"
            "  | Some s => match pc s, collect nat nat (res s) with Done, Return _ _ l => if Nat.eqb (length l) n then 100 else 300 | Done, Raise _ _ e => e | _, _ => 400 end\n"
            "  | None => 500 end.\n"
            "Eval vm_compute in [" + ";\n".join(items) + "].")
    rc, o, e = common.coq_eval("cases_C13", text)
    codes = [int(x) for x in re.findall(r"\d+", o.split("=", 1)[1].split(":")[0])] if rc == 0 and "=" in o else []
    nmodel = 0
    if len(codes) != len(scen):
        chk.tie_broken("correspondence:coq-eval", (o + e)[-800:])
    else:
        for sc, code in zip(scen, codes):
            c = sc["calls"][0]
            want = min(c["fail"]) if c["fail"] else 100
            if code != want:
                chk.tie_broken("model-schedule", f"model gives code {code} for {sc}; serial gives {want}")
            else:
                nmodel += 1
    # grid level: number_of_processors=2 vs 1, value for value
    ngrid = 0
    cfgs = [corpus.CONFIGS["lsn"], dict(corpus.CONFIGS["lsn"], name="lsn_np2", options=dict(corpus.CONFIGS["lsn"]["options"], number_of_processors=2))]
    # non-orthogonal, no y-boundary guard cells, double null: contours are EXTENDED inside the workers to reach the wall (work done on pickled copies)
    cfgs += [corpus.CONFIGS["cdn_nonorth"], dict(corpus.CONFIGS["cdn_nonorth"], name="cdn_nonorth_np2", options=dict(corpus.CONFIGS["cdn_nonorth"]["options"], number_of_processors=2))]
    if chk.tier == "thorough":
        cfgs += [corpus.CONFIGS["circ"], dict(corpus.CONFIGS["circ"], name="circ_np3", options=dict(corpus.CONFIGS["circ"]["options"], number_of_processors=3))]
    gs = corpus.get(names=[], extra_cfgs=cfgs)
    for a, b in zip(gs[0::2], gs[1::2]):
        if not a.ok or not b.ok:
            if a.ok != b.ok:
                chk.fail("grid:parallel-fails", f"grid {b.name} with number_of_processors>1: {(b.error or '').strip().splitlines()[-1][:200]} but serial {'succeeds' if a.ok else 'fails'}", {"grid": b.name})
            continue
        for name, arrs in a.d["global"].items():
            other = b.d["global"].get(name)
            locs = arrs.items() if isinstance(arrs, dict) else [("", arrs)]
            for loc, v in locs:
                w = other[loc] if isinstance(arrs, dict) else other
                ngrid += 1
                if not np.array_equal(v, w, equal_nan=True):
                    chk.fail("grid:parallel-differs", f"array {name}.{loc} of the np>1 grid differs from the serial grid", {"grid": b.name, "array": name, "loc": loc, "max_abs_diff": float(np.nanmax(np.abs(np.asarray(v) - np.asarray(w))))})
    chk.count(evaluations=nrun + ngrid, distinct=nagree + ngrid)
    chk.cov["rule"] = ("scenario = (np, n, feasible completion order, failing set[, further calls on the same object]); exhaustive for np in {2,3}, small n "
                       "(sampled in quick), random larger ones; distinct_nontrivial = calls whose observable equalled the serial one + grid arrays compared")
    chk.cov["states"] = len(scen)
    chk.notes["correspondence"] = {"scenarios": len(scen), "calls_run": nrun, "calls_equal_serial": nagree, "model_schedules_checked": nmodel, "grid_arrays_compared": ngrid}
    chk.cov["traces_validated_against_impl"] = nagree
    chk.sample(scen[3]); chk.sample(scen[-1])
