"""C08 -- block topology, branch-cut indices, global index map."""
import os
import random
import re

import numpy as np

import common
import corpus
from common import REPO, GEN

import pyir
import topo as tr

LEVEL = "proof"
INTS = ("ixseps1", "ixseps2", "jyseps1_1", "jyseps2_1", "ny_inner", "jyseps1_2", "jyseps2_2")


def translate(chk):
    try:
        text, info = tr.emit(REPO)
    except (pyir.TranslationError, SyntaxError, OSError) as e:
        chk.tie_broken("translate/topo.py", f"translator refused the source: {e}")
        return None
    common.write_if_changed(os.path.join(GEN, "Gen_Topo.v"), text)
    return info


# ---------------- python twins of the Coq spec / model (used for the failing-input search) ----------------
def bout_up(t, ny, x, j):
    dn = t["jyseps2_1"] != t["jyseps1_2"]
    step = None if j == ny - 1 else j + 1
    if j == t["jyseps1_1"]:
        return t["jyseps2_2"] + 1 if x < t["ixseps1"] else step
    if j == t["jyseps2_2"]:
        return t["jyseps1_1"] + 1 if x < t["ixseps1"] else step
    if dn and j == t["jyseps2_1"]:
        return t["jyseps1_2"] + 1 if x < t["ixseps2"] else step
    if dn and j == t["jyseps1_2"]:
        return t["jyseps2_1"] + 1 if x < t["ixseps2"] else step
    if dn and j == t["ny_inner"] - 1:
        return None
    return step


def ordered(t, ny):
    ok = -1 <= t["jyseps1_1"] <= t["jyseps2_1"] <= t["jyseps1_2"] <= t["jyseps2_2"] <= ny - 1
    if t["jyseps2_1"] != t["jyseps1_2"]:
        ok = ok and t["jyseps2_1"] < t["ny_inner"] <= t["jyseps1_2"]
    return ok


def model_up(upper, ys, xs, x, j):
    off = np.concatenate([[0], np.cumsum(ys)])
    r = int(np.searchsorted(off, j, side="right") - 1)
    k = int(np.searchsorted(xs, x, side="right") - 1)
    if j != off[r + 1] - 1:
        return j + 1
    u = upper.get((r, k))
    return None if u is None else int(off[u[0]])


def topology_oracle(chk, name, opts, d, t, where):
    """tables + layout of a real equilibrium/mesh vs BOUT++'s reading of the integers the real ladder computes."""
    order = d["order"]
    idx = {n: i for i, n in enumerate(order)}
    upper = {}
    for n, r in d["regions"].items():
        for k, c in enumerate(r["connections"]):
            if c["upper"] is not None:
                upper[(idx[n], k)] = (idx[c["upper"][0]], c["upper"][1])
    m = d["mesh"]
    ys, xs, nyng, nx = m["y_regions_noguards"], m["x_startinds"], m["ny_noguards"], m["nx"]
    bad = []
    for x in range(nx):
        for j in range(nyng):
            a, b = model_up(upper, ys, xs, x, j), bout_up(t, nyng, x, j)
            if a != b:
                bad.append((x, j, a, b))
    uo = bool(opts.get("start_at_upper_outer"))
    topo = {None: "sn", "connected": "cdn", "lower": "ldn", "upper": "udn"}[d["double_null_type"]]
    if bad:
        key = f"adjacency:{topo}" + (":start_at_upper_outer" if uo else "")
        chk.fail(key, f"cell adjacency from the connection tables differs from BOUT++'s reading of the written integers ({topo}{', start_at_upper_outer' if uo else ''})",
                 dict(where, integers=t, ny_regions=ys, x_startinds=xs, first_mismatches=[dict(x=x, j=j, tables_say=a, integers_say=b) for x, j, a, b in bad[:4]]))
    if not ordered(t, nyng):
        chk.fail(f"ordering:{topo}", f"topology integers are not ordered as BOUT++ requires ({topo}): {t}", dict(where, integers=t, ny_regions=ys, ny_with_guards=m["ny"]))
    return len(bad) == 0


def run(chk):
    info = translate(chk)
    chk.trust("translate/topo.py (integer ladder + literal tables -> Gallina; validated against the executed source on every run)",
              "theories/TopoLib.v bout_up/ordered: hand-written reading of BOUT++'s documented topology indices (the specification)")
    chk.assume("the neighbour structure of the real Mesh is read from eq.regions[*].connections and BoutMesh attributes with makeRegions stubbed (no hook in /repo)")
    chk.coq()
    rng = random.Random(chk.seed)
    # ---------------- C: real equilibria / BoutMesh index code, random sizes
    eqs = []
    nrep = 2 if chk.tier == "quick" else 8
    for fam, sign, kind in (("lsn", 1, "sn"), ("usn", 1, "sn"), ("cdn", 1, "cdn"), ("udn", 1, "ddn"), ("ldn", 1, "ddn"), ("lsn", -1, "sn"), ("udn2", 1, "ddn")):
        for rep in range(nrep):
            o = dict(psinorm_core=0.8, psinorm_sol=1.2, psinorm_pf=0.9, number_of_processors=1, y_boundary_guards=rng.choice([0, 1, 2, 3]),
                     nx_core=rng.randint(1, 6), nx_sol=rng.randint(1, 6))
            r = lambda: rng.choice([1, 2, 3, 4, 7, 12, 40]) if rng.random() < 0.5 else rng.randint(1, 9)
            if kind == "sn":
                o.update(ny_inner_divertor=r(), ny_sol=r() + 1, ny_outer_divertor=r())
            else:
                o.update(ny_inner_lower_divertor=r(), ny_inner_upper_divertor=r(), ny_inner_sol=r(), ny_outer_sol=r(),
                         ny_outer_lower_divertor=r(), ny_outer_upper_divertor=r())
                if kind == "ddn":
                    o.update(nx_inter_sep=rng.randint(1, 3))
                if rep % 2 == 1:
                    o.update(start_at_upper_outer=True)
            eqs.append(dict(family=fam, sign=sign, options=o))
    # ---------------- D: ladder on random size vectors
    cases = []
    for _ in range(300 if chk.tier == "quick" else 3000):
        nreg = rng.choice([1, 3, 3, 4, 6, 6, 6, 2, 5])
        ys = [rng.choice([1, 2, 3, 5, 8, 40]) for _ in range(nreg)]
        nseg = rng.choice([1, 2, 2, 3, 3, 4])
        xs = [0]
        for _ in range(nseg):
            xs.append(xs[-1] + rng.randint(1, 6))
        myg = rng.choice([0, 1, 2])
        nguards = 2 * myg if nreg < 6 else 4 * myg
        cases.append(dict(xs=xs, ys=ys, nx=xs[-1], ny=sum(ys) + nguards, nyng=sum(ys), dn=rng.choice([0, 1, 2]), sepidx=rng.choice([0, 1])))
    payload = dict(eqs=eqs)
    # the integer ladder alone (so that the oracle on real equilibria still runs when the tables / orderings part of the translator refuses the source)
    lad_src = info["ladder_source"] if info is not None else None
    if lad_src is None:
        try:
            lad_src = tr.ladder(os.path.join(REPO, "hypnotoad/core/mesh.py"))[1]
        except (pyir.TranslationError, SyntaxError, OSError) as e:
            chk.tie_broken("translate/topo.py:ladder", f"the integer ladder of writeGridfile cannot be extracted: {e}")
    if info is not None:
        payload.update(ladder_source=info["ladder_source"], ladder_cases=cases + [dict(xs=[0, 1], ys=[1], nx=1, ny=1, nyng=1, dn=0, sepidx=0)])
    rc, res, o, e = common.run_impl_json("impl/topo.py", payload, timeout=900)
    if res is None:
        chk.tie_broken("impl/topo.py", f"implementation run failed rc={rc}: {(o + e)[-1500:]}")
        return
    n_eq = n_lad = n_lad_ok = 0
    # ---- tables / ordering / tiling on the real objects
    if lad_src is not None:
        T = info["tables"] if info is not None else None
        need_ladder = []
        for q, d in zip(eqs, res["eq"]):
            where = {"family": q["family"], "sign": q["sign"], "options": q["options"]}
            if "error" in d:
                chk.notes.setdefault("equilibria_refused", []).append({"where": where, "error": d["error"][:200]})
                continue
            n_eq += 1
            topo = {None: "lsn" if "inner_lower_divertor" in d["order"] else "usn", "connected": "cdn", "lower": "ldn", "upper": "udn"}[d["double_null_type"]]
            key = topo + ("_uo" if q["options"].get("start_at_upper_outer") and topo != "usn" else "")
            tab = T.get(key) if T is not None else None
            if T is not None:
                if tab is None or tab["order"] != d["order"]:
                    chk.tie_broken(f"tables:order:{key}", f"region order of the real equilibrium {d['order']} differs from the extracted ordering {tab and tab['order']}")
                    continue
                real = sorted((n, k, c["upper"][0], c["upper"][1]) for n, r in d["regions"].items() for k, c in enumerate(r["connections"]) if c["upper"] is not None)
                if real != sorted(map(tuple, tab["connections"])):
                    chk.tie_broken(f"tables:connections:{key}", f"connections of the real equilibrium differ from the extracted table: {real[:4]}...")
                    continue
            # symmetric + equal nx across each connection + tiling of the index rectangle by region_indices
            regs = d["regions"]
            for n, r in regs.items():
                for k, c in enumerate(r["connections"]):
                    for face, other in (("upper", "lower"), ("lower", "upper"), ("inner", "outer"), ("outer", "inner")):
                        if c[face] is not None:
                            n2, k2 = c[face]
                            back = regs[n2]["connections"][k2][other]
                            if back is None or tuple(back) != (n, k):
                                chk.fail("connections-asymmetric", f"{face} of {(n, k)} is {(n2, k2)} but its {other} is {back}", where)
                            if face in ("upper", "lower") and regs[n2]["nx"][k2] != r["nx"][k]:
                                chk.fail("connection-size-mismatch", f"joined y-edges have different nx: {(n, k)} / {(n2, k2)}", where)
                            if face in ("inner", "outer") and regs[n2]["ny"][k2] != r["ny"][k]:
                                chk.fail("connection-size-mismatch", f"joined x-edges have different ny: {(n, k)} / {(n2, k2)}", where)
            m = d["mesh"]
            cover = np.zeros((m["nx"], m["ny"]), dtype=int)
            for rid, ((x0, x1), (y0, y1)) in m["region_indices"].items():
                cover[x0:x1, y0:y1] += 1
            if not np.all(cover == 1):
                chk.fail("tiling", "region_indices do not tile the nx x ny index rectangle exactly once", dict(where, min=int(cover.min()), max=int(cover.max())))
            dn = {None: 0, "connected": 0, "lower": 1, "upper": 2}[d["double_null_type"]]
            need_ladder.append((q, d, dict(xs=m["x_startinds"], ys=m["y_regions_noguards"], nx=m["nx"], ny=m["ny"], nyng=m["ny_noguards"], dn=dn, sepidx=m["sepidx"])))
        # integers for the real meshes through the real ladder
        rc2, res2, o2, e2 = common.run_impl_json("impl/topo.py", dict(ladder_source=lad_src, ladder_cases=[c for _, _, c in need_ladder]), timeout=300)
        if res2 is None:
            chk.tie_broken("impl/topo.py:ladder", (o2 + e2)[-800:])
        else:
            for (q, d, c), ints in zip(need_ladder, res2["ladder"]):
                where = {"family": q["family"], "sign": q["sign"], "options": q["options"]}
                if isinstance(ints, dict):
                    chk.fail("ladder-raises", f"the integer ladder raises {ints['error']} on a generated mesh", where)
                    continue
                topology_oracle(chk, q["family"], q["options"], d, dict(zip(INTS, ints)), where)
    if info is not None and "ladder" in res and "xpt" in info["tables"]:
        # ---- the isolated X-point topology (four legs on the wall, torpex.py): the executed ladder on random leg sizes against the extracted table
        xt = info["tables"]["xpt"]
        xi = {r: i for i, r in enumerate(xt["order"])}
        up4 = {(xi[a], i): (xi[b], j) for a, i, b, j in xt["connections"]}
        for c, r in zip(cases, res["ladder"]):
            if len(c["ys"]) != 4 or len(c["xs"]) != 3 or isinstance(r, dict):
                continue
            t = dict(zip(INTS, r))
            nyng = c["nyng"]
            bad = [(x, j, model_up(up4, c["ys"], c["xs"], x, j), bout_up(t, nyng, x, j)) for x in range(c["nx"]) for j in range(nyng)
                   if model_up(up4, c["ys"], c["xs"], x, j) != bout_up(t, nyng, x, j)]
            n_eq += 1
            if bad:
                chk.fail("adjacency:isolated-xpoint", "isolated X-point topology (4 legs on the wall): cell adjacency from torpex.py's connections differs from BOUT++'s reading of the integers writeGridfile computes",
                         dict(leg_sizes=c["ys"], x_startinds=c["xs"], integers=t, first_mismatches=[dict(x=x, j=j, tables_say=a, integers_say=b) for x, j, a, b in bad[:4]]))
            if not ordered(t, nyng):
                chk.fail("ordering:isolated-xpoint", f"topology integers are not ordered as BOUT++ requires (isolated X-point): {t}", dict(leg_sizes=c["ys"], integers=t))
    if info is not None:
        # ---- D: translation validation of the ladder in Coq
        lad = res["ladder"]
        items = []
        for c, r in zip(cases, lad):
            L = lambda xs: "[" + ";".join(map(str, xs)) + "]"
            exp = "None" if isinstance(r, dict) else "Some (mkints " + " ".join(f"({v})" for v in r) + ")"
            items.append(f"ints_eqb (topo_ints {L(c['xs'])} {L(c['ys'])} {c['nx']} {c['ny']} {c['nyng']} {c['dn']} {c['sepidx']}) ({exp})")
        text = ("From Coq Require Import ZArith List Bool. Import ListNotations.\nFrom HT Require Import TopoLib.\nFrom HG Require Import Gen_Topo.\nLocal Open Scope Z_scope.\n"
                "Definition ints_eqb (a b : option ints) : bool := match a, b with None, None => true | Some s, Some t => (ixseps1 s =? ixseps1 t) && (ixseps2 s =? ixseps2 t) && "
                "(jyseps1_1 s =? jyseps1_1 t) && (jyseps2_1 s =? jyseps2_1 t) && (ny_inner s =? ny_inner t) && (jyseps1_2 s =? jyseps1_2 t) && (jyseps2_2 s =? jyseps2_2 t) | _, _ => false end.\n"
                "Definition rs : list bool := [\n" + ";\n".join(items) + "].\n"
                "Eval vm_compute in (length (filter (fun b => b) rs), length rs).")
        rcq, oq, eq = common.coq_eval("cases_C08", text)
        mm = re.search(r"\((\d+)(?:%nat)?,\s*(\d+)(?:%nat)?\)", oq.replace("\n", " "))
        if rcq != 0 or not mm:
            chk.tie_broken("translation-validation:ladder:coq-eval", (oq + eq)[-800:])
        else:
            n_lad_ok, n_lad = int(mm.group(1)), int(mm.group(2))
            if n_lad_ok != n_lad:
                chk.tie_broken("translation-validation:ladder", f"generated topo_ints disagrees with the executed source on {n_lad - n_lad_ok} of {n_lad} size vectors")
    # ---------------- E: grid files of the corpus
    from props import c08_grid, c01
    ngrid = c08_grid.run(chk)
    # the corners that the branch-cut integers place at an X-point are pinned there by the regions' X-point bookkeeping: on real equilibria of every topology each pin
    # must be an X-point ON the flux surface of that radial boundary (C01's pin oracle, also needed when a wrong pin makes the mesh refuse to generate)
    ngrid += c01.pin_oracle(chk)
    chk.count(evaluations=n_eq + n_lad + ngrid, distinct=n_eq + n_lad_ok + ngrid)
    chk.cov["rule"] = ("real equilibria of every topology with random nx/ny/guards (incl. strongly unequal legs, start_at_upper_outer); random size vectors through the executed "
                       "integer ladder; corpus grid files; distinct = agreeing distinct cases")
    chk.cov["programs"] = 1
    chk.cov["disagreements_checked"] = n_lad
    chk.notes["correspondence"] = {"equilibria_with_stubbed_mesh": n_eq, "ladder_size_vectors": n_lad, "ladder_agree": n_lad_ok, "grid_files": ngrid}
    if eqs:
        chk.sample({"equilibrium_options": eqs[0]["options"], "family": eqs[0]["family"]})
    if cases:
        chk.sample({"ladder_case": cases[0]})
