"""C02 on real grids: the property's relations evaluated on the arrays hypnotoad produced."""
import numpy as np

import corpus


def run(chk):
    # the option cap_Bp_ylow_xpoint raises Bpxy at the y-faces next to an X-point: the metric must be computed from the Bpxy (and the dphidy) that are written
    extra = [corpus.tok("lsn_neg_capBp", "lsn", corpus.SN, sign=-1.0, options=dict(cap_Bp_ylow_xpoint=True), must_build=True)]
    grids = corpus.get(tier=chk.tier, extra_cfgs=extra)
    stats = {}
    for g in grids:
        if not g.ok:
            chk.notes.setdefault("corpus_failed", []).append({"grid": g.name, "error": g.error.strip().splitlines()[-1][:300]})
            continue
        orth = bool(g.d["mesh"]["user_options"].get("orthogonal", True))
        worst = dict(inv=0.0, jdet=0.0, yz=0.0, g11=0.0, g12=0.0, g22=0.0)
        npts = 0
        for rid, r in g.d["regions"].items():
            A = r["arrays"]
            bps = r["bpsign"]
            tag = f"{'orth' if orth else 'nonorth'}:bpsign={int(bps):+d}"
            where = {"grid": g.name, "region": r["name"]}
            for loc in ("centre", "xlow", "ylow"):
                if any(loc not in A[k] for k in ("g11", "g22", "g33", "g12", "g13", "g23", "J", "g_11", "g_22", "g_33", "g_12", "g_13", "g_23", "hy", "Bpxy", "Rxy")):
                    continue
                a = {k: A[k][loc] for k in ("g11", "g22", "g33", "g12", "g13", "g23", "J", "g_11", "g_22", "g_33", "g_12", "g_13", "g_23", "hy", "Bpxy", "Rxy")}
                up = [[a["g11"], a["g12"], a["g13"]], [a["g12"], a["g22"], a["g23"]], [a["g13"], a["g23"], a["g33"]]]
                dn = [[a["g_11"], a["g_12"], a["g_13"]], [a["g_12"], a["g_22"], a["g_23"]], [a["g_13"], a["g_23"], a["g_33"]]]
                for i in range(3):
                    for k in range(3):
                        terms = [up[i][j] * dn[j][k] for j in range(3)]
                        err = np.abs(sum(terms) - (1.0 if i == k else 0.0)) / (sum(np.abs(t) for t in terms) + 1.0)
                        worst["inv"] = max(worst["inv"], float(np.nanmax(err)))
                        if np.nanmax(err) > 1e-9:
                            p = np.unravel_index(np.nanargmax(err), err.shape)
                            chk.fail(f"inverse:{tag}", f"g^ij g_jk != delta at ({i+1},{k+1})", dict(where, loc=loc, index=list(map(int, p)), err=float(err[p])))
                det = (a["g11"] * a["g22"] * a["g33"] + 2 * a["g12"] * a["g13"] * a["g23"] - a["g11"] * a["g23"] ** 2
                       - a["g22"] * a["g13"] ** 2 - a["g33"] * a["g12"] ** 2)
                e = np.abs(np.abs(a["J"]) * np.sqrt(np.abs(det)) - 1.0)
                worst["jdet"] = max(worst["jdet"], float(np.nanmax(e)))
                if np.nanmax(e) > 1e-6 or np.nanmax(np.abs(a["J"] - a["hy"] / a["Bpxy"]) / np.abs(a["J"])) > 1e-12:
                    p = np.unravel_index(np.nanargmax(e), e.shape)
                    chk.fail(f"Jdet:{tag}", "|J| sqrt(det) != 1 or J != hy/Bp", dict(where, loc=loc, index=list(map(int, p)), err=float(e[p])))
                npts += a["J"].size
                # ---- closed forms in terms of the R, Bp, Bt, hy OF THE SAME GRID (orthogonal grids; g11 and g_33 on all grids)
                if all(loc in A[k] for k in ("Btxy",)):
                    R_, Bp_, Bt_, hy_ = a["Rxy"], a["Bpxy"], A["Btxy"][loc], a["hy"]
                    forms = [("g11", (R_ * Bp_) ** 2), ("g_33", R_ ** 2)]
                    if orth:
                        forms += [("g22", 1.0 / hy_ ** 2), ("g33", (Bp_ ** 2 + Bt_ ** 2) / (R_ * Bp_) ** 2), ("g_22", hy_ ** 2 * (1.0 + Bt_ ** 2 / Bp_ ** 2)),
                                  ("|g23|", np.abs(Bt_ / (hy_ * Bp_ * R_))), ("|g_23|", np.abs(Bt_ * hy_ * R_ / Bp_)), ("g_11", 1.0 / (R_ * Bp_) ** 2)]
                    for nm, ref in forms:
                        got = np.abs(a[nm.strip("|")]) if nm.startswith("|") else a[nm]
                        okk = np.isfinite(ref) & np.isfinite(got)
                        if not okk.any():
                            continue
                        e = np.abs(got - ref)[okk] / (np.abs(ref)[okk] + 1e-300)
                        worst["closed"] = max(worst.get("closed", 0.0), float(e.max()))
                        if e.max() > 1e-9:
                            chk.fail(f"closed-form:{nm.strip('|')}:{tag}", f"{nm} is not its closed-form expression in the R, Bp, Bt, hy of the same grid", dict(where, loc=loc, max_rel_err=float(e.max())))
            # ---- y-z coupling against the zShift of the same grid (centre; finite difference of zShift_ylow)
            dy = A["dy"]["centre"]
            zs = A["zShift"]["ylow"]
            dzdy = (zs[:, 1:] - zs[:, :-1]) / dy
            ratio_ref = A["g_33"]["centre"] * dzdy
            g23 = A["g_23"]["centre"]
            mask = np.abs(ratio_ref) > 1e-8 * np.nanmax(np.abs(ratio_ref) + 1e-300)
            if mask.any():
                rel = np.abs(g23[mask] - ratio_ref[mask]) / np.abs(ratio_ref[mask])
                worst["yz"] = max(worst["yz"], float(rel.max()))
                if rel.max() > 0.5:
                    idx = np.argwhere(mask)[int(rel.argmax())]
                    chk.fail(f"yz-coupling:{tag}", f"g_23 != g_33*d(zShift)/dy on {tag}: real grid", dict(where, index=idx.tolist(), g_23=float(g23[tuple(idx)]), g_33_dzShift_dy=float(ratio_ref[tuple(idx)])))
            # ---- the same at the x-faces (zShift at the corners of the same grid) and the staggered copies against each other: zShift at an
            # x-face lies between the corners of that face, zShift at a centre between its two y-faces (Bt/(R Bp) has one sign)
            if "xlow" in A["g_23"] and "corners" in A["zShift"] and "xlow" in A["dy"]:
                zc, zx = A["zShift"]["corners"], A["zShift"]["xlow"]
                dzx = (zc[:, 1:] - zc[:, :-1]) / A["dy"]["xlow"]
                refx = A["g_33"]["xlow"] * dzx
                g23x = A["g_23"]["xlow"]
                mk = np.abs(refx) > 1e-8 * np.nanmax(np.abs(refx) + 1e-300)
                # the x-faces that end AT an X-point are left out: Bt/(R Bp) is singular there and no difference quotient applies
                ri_ = r["radialIndex"]
                for (a_, b_), xp_ in (((0, 0), r["xPointsAtStart"][ri_]), ((-1, 0), r["xPointsAtStart"][ri_ + 1]), ((0, -1), r["xPointsAtEnd"][ri_]), ((-1, -1), r["xPointsAtEnd"][ri_ + 1])):
                    if xp_ is not None:
                        mk[a_, b_] = False
                if mk.any():
                    relx = np.abs(g23x[mk] - refx[mk]) / np.abs(refx[mk])
                    worst["yz_xlow"] = max(worst.get("yz_xlow", 0.0), float(relx.max()))
                    if relx.max() > 0.6:
                        idx = np.argwhere(mk)[int(relx.argmax())]
                        chk.fail(f"yz-coupling:xlow:{tag}", f"g_23_xlow != g_33_xlow*d(zShift)/dy (zShift at the corners) on {tag}: real grid",
                                 dict(where, index=idx.tolist(), g_23=float(g23x[tuple(idx)]), g_33_dzShift_dy=float(refx[tuple(idx)])))
                for nm, lo, mid in (("xlow", zc, zx), ("centre", A["zShift"]["ylow"], A["zShift"]["centre"])):
                    inc = lo[:, 1:] - lo[:, :-1]
                    frac = (mid - lo[:, :-1]) / np.where(inc == 0, np.nan, inc)
                    okf = np.isfinite(frac)
                    if okf.any() and (np.nanmin(frac) < -1e-9 or np.nanmax(frac) > 1 + 1e-9):
                        idx = np.argwhere(okf & ((frac < -1e-9) | (frac > 1 + 1e-9)))[0]
                        chk.fail(f"zShift-staggered-order:{nm}:{tag}", f"zShift at the {nm} location does not lie between its values at the two ends of the cell in y, so "
                                 f"g_23 = g_33*d(zShift)/dy cannot hold for the half cells", dict(where, index=idx.tolist(), fraction=float(frac[tuple(idx)])))
                    if okf.any():
                        worst[f"fracmin_{nm}"] = min(worst.get(f"fracmin_{nm}", 1.0), float(np.nanmin(frac)))
                        worst[f"fracmax_{nm}"] = max(worst.get(f"fracmax_{nm}", 0.0), float(np.nanmax(frac)))
            # ---- displacements at cell centres (skip the cells touching an X-point)
            Rx, Zx = A["Rxy"]["xlow"], A["Zxy"]["xlow"]
            Ry, Zy = A["Rxy"]["ylow"], A["Zxy"]["ylow"]
            dx = A["dx"]["centre"]
            exR, exZ = (Rx[1:, :] - Rx[:-1, :]) / dx, (Zx[1:, :] - Zx[:-1, :]) / dx
            eyR, eyZ = (Ry[:, 1:] - Ry[:, :-1]) / dy, (Zy[:, 1:] - Zy[:, :-1]) / dy
            g11d, g12d, g22d = exR * exR + exZ * exZ, exR * eyR + exZ * eyZ, eyR * eyR + eyZ * eyZ
            ok = np.ones_like(dx, dtype=bool)
            if r["xPointsAtStart"][r["radialIndex"]] is not None:
                ok[0, 0] = False
            if r["xPointsAtStart"][r["radialIndex"] + 1] is not None:
                ok[-1, 0] = False
            if r["xPointsAtEnd"][r["radialIndex"]] is not None:
                ok[0, -1] = False
            if r["xPointsAtEnd"][r["radialIndex"] + 1] is not None:
                ok[-1, -1] = False
            c = A
            e11 = np.abs(c["g_11"]["centre"] - g11d) / g11d
            pol = c["g_22"]["centre"] - (c["Rxy"]["centre"] * c["dphidy"]["centre"]) ** 2
            e22 = np.abs(pol - g22d) / g22d
            cos_code = c["g_12"]["centre"] / np.sqrt(c["g_11"]["centre"] * pol)
            cos_true = g12d / np.sqrt(g11d * g22d)
            e12 = np.abs(cos_code - cos_true)
            worst["g11"] = max(worst["g11"], float(e11[ok].max()))
            worst["g22"] = max(worst["g22"], float(e22[ok].max()))
            worst["g12"] = max(worst["g12"], float(e12[ok].max()))
            if e11[ok].max() > 0.25:
                chk.fail(f"g_11-displacement:{tag}", "g_11 != e_x.e_x on a real grid", dict(where, err=float(e11[ok].max())))
            if e22[ok].max() > 0.25:
                chk.fail(f"g_22-poloidal:{tag}", "poloidal part of g_22 != e_y.e_y on a real grid", dict(where, err=float(e22[ok].max())))
            if orth:
                bad12 = ok & (c["g_12"]["centre"] != 0.0)
            else:
                # only cells with a clearly measurable skew: catches wrong sign / wrong scale of g_12
                bad12 = ok & (np.abs(cos_true) > 0.2) & (e12 > 0.5 * np.abs(cos_true))
            if bad12.any():
                p = np.unravel_index(np.argmax(np.where(bad12, e12, 0)), e12.shape)
                chk.fail(f"g_12-displacement:{tag}", f"g_12 != e_x.e_y on {tag}: real grid (cosines code/true)", dict(where, index=list(map(int, p)), cos_code=float(cos_code[p]), cos_true=float(cos_true[p])))
            # ---- poloidal part of g_22 at the y-faces (ylow), including the faces on region joins:
            #      e_y*dy there = two-chord distance centre(j-1) -> face(j) -> centre(j)
            Rc, Zc = A["Rxy"]["centre"], A["Zxy"]["centre"]
            pol_y = A["g_22"]["ylow"] - (A["Rxy"]["ylow"] * A["dphidy"]["ylow"]) ** 2
            ny = Rc.shape[1]
            for j in range(0, ny + 1):
                if 0 < j < ny:
                    Rm, Zm = Rc[:, j - 1], Zc[:, j - 1]
                    Rp, Zp = Rc[:, j], Zc[:, j]
                elif j == 0 and r["connections"]["lower"] is not None:
                    nb = g.d["regions"][r["connections"]["lower"]]["arrays"]
                    Rm, Zm = nb["Rxy"]["centre"][:, -1], nb["Zxy"]["centre"][:, -1]
                    Rp, Zp = Rc[:, 0], Zc[:, 0]
                elif j == ny and r["connections"]["upper"] is not None:
                    nb = g.d["regions"][r["connections"]["upper"]]["arrays"]
                    Rm, Zm = Rc[:, -1], Zc[:, -1]
                    Rp, Zp = nb["Rxy"]["centre"][:, 0], nb["Zxy"]["centre"][:, 0]
                else:
                    continue
                two = np.hypot(Ry[:, j] - Rm, Zy[:, j] - Zm) + np.hypot(Rp - Ry[:, j], Zp - Zy[:, j])
                ey = np.sqrt(np.abs(pol_y[:, j])) * A["dy"]["ylow"][:, j]
                okx = np.ones(len(two), dtype=bool)
                if j == 0:
                    okx[0] = r["xPointsAtStart"][r["radialIndex"]] is None
                    okx[-1] = r["xPointsAtStart"][r["radialIndex"] + 1] is None
                if j == ny:
                    okx[0] = r["xPointsAtEnd"][r["radialIndex"]] is None
                    okx[-1] = r["xPointsAtEnd"][r["radialIndex"] + 1] is None
                rel = np.abs(ey - two) / two
                if okx.any():
                    worst["g22y"] = max(worst.get("g22y", 0.0), float(rel[okx].max()))
                    if rel[okx].max() > 0.12:
                        i = int(np.argmax(np.where(okx, rel, 0)))
                        chk.fail(f"g_22-poloidal-ylow:{tag}", "poloidal part of g_22 at a y-face != squared displacement between the adjacent cell centres per unit dy",
                                 dict(where, x_index=i, y_face=j, at_join=j in (0, ny), sqrt_g22pol_dy=float(ey[i]), two_chord_distance=float(two[i])))
        stats[g.name] = {k: float(f"{v:.3g}") for k, v in worst.items()}
        chk.count(evaluations=npts, distinct=npts)
    chk.notes["grid_oracle_worst"] = stats
    chk.sample({"grid_oracle": stats})
