"""C20 -- segment/polygon predicates: exact-rational Coq model vs the float implementation."""
import itertools
import json
import math
import os
import random
import re
from fractions import Fraction

import common

LEVEL = "proof"


def q(x):
    f = Fraction(x)
    return f"({f.numerator} # {f.denominator})"


def pt(p):
    return f"(mkpt {q(p[0])} {q(p[1])})"


def plist(ps):
    return "[" + "; ".join(pt(p) for p in ps) + "]"


def slope_class(a, b):
    return "a" if abs(a[0] - b[0]) > abs(a[1] - b[1]) else ("45" if abs(a[0] - b[0]) == abs(a[1] - b[1]) else "b")


def gen_cases(rng, tier):
    cases = []
    lat = [(x, y) for x in (-1, 0, 1) for y in (-1, 0, 1)]
    dy = lambda: rng.randint(-40, 40) / 16.0
    # --- corpus of minimised past failures / structured cases first
    octagon = [(1, 0), (2, 0), (3, 1), (3, 2), (2, 3), (1, 3), (0, 2), (0, 1)]
    for s, e in [((1.5, 1.5), (3.5, 2.0)), ((1.5, 1.5), (2.9, 0.2)), ((1.5, 1.5), (-0.5, 0.25)), ((1.5, 1.5), (0.25, 3.5)),
                 ((1.5, 1.5), (1.5, 4.0)), ((1.5, 1.5), (4.0, 1.5)), ((4.0, 1.5), (1.5, 1.5)), ((1.5, -1.0), (1.5, 1.5)),
                 ((1.5, 1.5), (3.0, 3.0)), ((0.0, 0.0), (3.0, 2.25)), ((1.5, 1.5), (3.0, 1.0))]:
        cases.append(dict(kind="fi", wall=octagon + [octagon[0]], s=s, e=e))
    sq = [(0, 0), (2, 0), (2, 2), (0, 2)]
    for s, e in [((1, 1), (3, 3)), ((1, 1), (2, 2)), ((1, 1), (3, 1.5)), ((1, 1), (1, 5)), ((-1, 1), (3, 1)), ((1, 1), (1.5, 1.5)), ((1, 1), (2, 1))]:
        cases.append(dict(kind="fi", wall=sq + [sq[0]], s=s, e=e))
    # --- lattice cases: triangles/quads on the 3x3 lattice x lattice segments
    polys = [list(p) for n in (3, 4) for p in itertools.permutations(lat, n) if p[0] == min(p)]
    segs = [(a, b) for a in lat for b in lat if a != b]
    nl = 260 if tier == "quick" else 6000
    for _ in range(nl):
        w = rng.choice(polys)
        s, e = rng.choice(segs)
        sc = rng.choice([1.0, 0.5, 1.5])
        cases.append(dict(kind="fi", wall=[(x * sc, y * sc) for x, y in w] + [(w[0][0] * sc, w[0][1] * sc)], s=(s[0] * sc + 0.0, s[1] * sc), e=(e[0] * sc, e[1] * sc)))
    # --- random dyadic polygons (3..8 vertices) and segments, all slope classes
    nr = 260 if tier == "quick" else 6000
    for _ in range(nr):
        n = rng.randint(3, 8)
        w = [(dy(), dy()) for _ in range(n)]
        s, e = (dy(), dy()), (dy(), dy())
        if s == e:
            continue
        cases.append(dict(kind="fi", wall=w + [w[0]], s=s, e=e))
    # --- walls with a REPEATED vertex (a limiter contour given closed and closed again by the constructor; a duplicated point): a zero-length
    # edge must never be reported, also when the segment passes through the repeated vertex
    for _ in range(60 if tier == "quick" else 1500):
        n = rng.randint(3, 6)
        if rng.random() < 0.5:
            w = list(rng.choice(polys))
        else:
            w = [(dy(), dy()) for _ in range(n)]
        k = rng.randrange(len(w))
        w2 = w[:k + 1] + [w[k]] + w[k + 1:] if rng.random() < 0.5 else w + [w[0]]       # duplicate inside / closed twice
        v = w[k] if len(w2) > len(w) and w2[k] == w2[k + 1] else w[0]
        if rng.random() < 0.6:      # through the repeated vertex
            d = rng.choice([(1.0, 0.5), (0.5, 1.0), (-1.0, 0.25), (0.25, -1.0), (1.0, 1.0), (1.0, -0.75)])
            s, e = (v[0] - d[0], v[1] - d[1]), (v[0] + d[0], v[1] + d[1])
        else:
            s, e = (dy(), dy()), (dy(), dy())
            if s == e:
                continue
        cases.append(dict(kind="fi", wall=w2 + [w2[0]], s=s, e=e))
    # --- polygons: area / clockwise on OPEN vertex lists whose closing edge matters
    na = 150 if tier == "quick" else 3000
    for _ in range(na):
        n = rng.randint(3, 7)
        if rng.random() < 0.5:
            w = [rng.choice(lat) for _ in range(n)]
            w = [(x + 5 * (rng.random() < 0.3), y + 5) for x, y in w]   # one side of Z=0: closing-edge term dominates
        else:
            w = [(dy(), dy()) for _ in range(n)]
        cases.append(dict(kind="area", w=w))
    for _ in range(na):
        n1, n2 = rng.randint(2, 5), rng.randint(3, 5)
        mk = (lambda: rng.choice(lat)) if rng.random() < 0.5 else (lambda: (dy(), dy()))
        cases.append(dict(kind="poly", w1=[mk() for _ in range(n1)], w2=[mk() for _ in range(n2)], c1=rng.random() < 0.7, c2=rng.random() < 0.7))
    for _ in range(na):
        mk = (lambda: rng.choice(lat)) if rng.random() < 0.5 else (lambda: (dy(), dy()))
        cases.append(dict(kind="closest", p=mk(), a=mk(), b=mk()))
    return cases


def coq_case(c, r):
    if "exception" in r:
        return None
    k = c["kind"]
    if k == "fi":
        impl = plist(r["fi"])
        w = plist(c["wall"])
        return [f"verdict_fi {w} {pt(c['s'])} {pt(c['e'])} {impl}",
                f"verdict_wall {w} {pt(c['s'])} {pt(c['e'])} {r['wi'][0]}%nat {pt(r['wi'][1])}"]
    if k == "area":
        return [f"verdict_area {plist(c['w'])} {q(r['area'])} {'true' if r['cw'] else 'false'}"]
    if k == "poly":
        b = lambda v: "true" if v else "false"
        return [f"verdict_poly2 {b(c.get('c1', True))} {b(c.get('c2', True))} {plist(c['w1'])} {plist(c['w2'])} {b(r['x'])}"]
    if k == "closest":
        if r["d2"] is None or (isinstance(r["d2"], float) and math.isnan(r["d2"])):
            return [f"verdict_closest {pt(c['p'])} {pt(c['a'])} {pt(c['b'])} 0"] if c["a"] == c["b"] else None
        return [f"verdict_closest {pt(c['p'])} {pt(c['a'])} {pt(c['b'])} {q(r['d2'])}"]


def run(chk):
    chk.trust("hand model theories/Model_Geom2D.v tied to the code by this correspondence (not by translation)",
              "harness/impl/geom2d.py calls the real find_intersections / wallIntersection / polygons.* / closest_approach")
    chk.assume("completeness is proved for edges `separated` from the segment (non-zero lengths, same-class slopes differing by >= 1e-15): near-parallel same-class pairs are outside the theorem, as in the code",
               "cases whose exact outcome depends on the tolerance (touching/vertex) are classified degenerate and only counted")
    chk.coq()
    rng = random.Random(chk.seed)
    cases = gen_cases(rng, chk.tier)
    rc, res, o, e = common.run_impl_json("impl/geom2d.py", cases, timeout=900)
    if res is None or len(res) != len(cases):
        chk.tie_broken("impl/geom2d.py", f"implementation run failed rc={rc}: {(o + e)[-1500:]}")
        return
    items = []   # (case index, verdict expr)
    for i, (c, r) in enumerate(zip(cases, res)):
        cc = coq_case(c, r)
        if cc is None:
            chk.fail(f"exception:{c['kind']}", f"implementation raised/returned NaN on a non-degenerate {c['kind']} case: {r}", {"case": c, "result": r})
            continue
        for expr in cc:
            items.append((i, expr))
    # shard into files of <= 400 verdicts, evaluate with coqc in parallel
    shards = [items[k:k + 400] for k in range(0, len(items), 400)]
    from concurrent.futures import ThreadPoolExecutor

    def ev(idx_sh):
        idx, sh = idx_sh
        text = ["From Coq Require Import QArith List. Import ListNotations.", "From HT Require Import Model_Geom2D Check_Geom2D.",
                "Local Open Scope Q_scope.", "Definition vs : list nat := ["]
        text.append(";\n".join(x for _, x in sh))
        text.append("].\nEval vm_compute in (count 0 vs, count 1 vs, count 2 vs, positions 1 0 vs, positions 2 0 vs).")
        return common.coq_eval(f"cases_C20_{idx}", "\n".join(text), timeout=900)

    with common.CoqLock():
        common.coq_makefile()
        rcm, om, em = common.run_group(["make", "-j8", "theories/Check_Geom2D.vo"], 600, cwd=common.COQ)
    with ThreadPoolExecutor(max_workers=8) as ex:
        outs = list(ex.map(ev, enumerate(shards)))
    agree = dis = deg = 0
    dist = {}
    for sh, (rc, o, e) in zip(shards, outs):
        flat = o.replace("\n", " ")
        m = re.search(r"=\s*\((\d+)\D+(\d+)\D+(\d+)\D*,\s*\[([^\]]*)\]\s*,\s*\[([^\]]*)\]", flat)
        if rc != 0 or not m:
            chk.tie_broken("correspondence:coq-eval", (o + e)[-1500:])
            continue
        agree += int(m.group(1)); dis += int(m.group(2)); deg += int(m.group(3))
        for pos in re.findall(r"\d+", m.group(4)):
            ci, expr = sh[int(pos)]
            c = cases[ci]
            key = expr.split()[0]
            sc = ""
            if c["kind"] == "fi":
                sc = f":seg={slope_class(c['s'], c['e'])}"
            chk.fail(f"model-vs-impl:{key}{sc}", f"{key}: implementation disagrees with the exact-rational model", {"case": c, "implementation": res[ci]})
    for c in cases:
        k = c["kind"]
        if k == "fi":
            k += ":seg=" + slope_class(c["s"], c["e"]) + ",edges=" + "".join(sorted({slope_class(a, b) for a, b in zip(c["wall"], c["wall"][1:])}))
        dist[k] = dist.get(k, 0) + 1
    chk.count(evaluations=len(items), distinct=agree + dis)
    chk.cov["rule"] = ("seeded cases: structured corpus (octagon with 45-degree chamfers, square), random triangles/quads on the 3x3 lattice "
                       "(scaled), random dyadic polygons (k/16) with 3-8 vertices; distinct_nontrivial = verdicts that were not classified degenerate")
    chk.notes["correspondence"] = {"verdicts": len(items), "agree": agree, "disagree": dis, "degenerate": deg, "input_distribution": dist}
    chk.cov["traces_validated_against_impl"] = agree
    chk.sample({"case": cases[0], "implementation": res[0]})
    chk.sample({"case": cases[len(cases) // 2], "implementation": res[len(cases) // 2]})
