"""C05 -- hy and poloidal_distance are arc lengths."""
import numpy as np

import common
import corpus
from props import c01

LEVEL = "proof"


def translate(chk):
    return c01.translate(chk)


def arc3(P):
    """arc length between consecutive points of a smooth curve, from the circle through each three neighbours
    (4th-order accurate in the spacing; independent of FineContour).  Returns len(P)-1 segment lengths."""
    P = np.asarray(P, dtype=float)
    n = len(P)
    seg = np.hypot(*(P[1:] - P[:-1]).T)
    out = np.array(seg)
    est = np.zeros((n - 1, 2))
    cnt = np.zeros(n - 1)
    for k in range(1, n - 1):
        a, b, c = P[k - 1], P[k], P[k + 1]
        ab, bc, ac = np.hypot(*(b - a)), np.hypot(*(c - b)), np.hypot(*(c - a))
        area2 = abs((b[0] - a[0]) * (c[1] - a[1]) - (b[1] - a[1]) * (c[0] - a[0]))
        if area2 < 1e-14 * ab * bc:
            l1, l2 = ab, bc
        else:
            Rc = ab * bc * ac / (2 * area2)
            l1 = 2 * Rc * np.arcsin(min(1.0, ab / (2 * Rc)))
            l2 = 2 * Rc * np.arcsin(min(1.0, bc / (2 * Rc)))
        est[k - 1, int(cnt[k - 1])] = l1; cnt[k - 1] += 1
        est[k, int(cnt[k])] = l2; cnt[k] += 1
    for k in range(n - 1):
        if cnt[k]:
            out[k] = est[k, :int(cnt[k])].mean()
    return out


def model_groups(lower, upper, n, pick_last):
    """python twin of Model_Chain.y_groups"""
    rl = list(range(n))
    groups = []
    while rl:
        i = next((k for k, r in enumerate(rl) if lower[r] is None), len(rl) - 1 if pick_last else 0)
        cur = rl[i]
        g = []
        while True:
            g.append(cur)
            rl.pop(i)
            nxt = upper[cur]
            if nxt is None or nxt in g:
                break
            i = rl.index(nxt)
            cur = nxt
        groups.append(g)
    return groups


def run(chk):
    info = c01.translate(chk)
    chk.trust("translate/slices.py fingerprints of calcHy, calcPoloidalDistance, getRZBoundary and of the y-group loop; translate/topo.py tables",
              "hand model theories/Model_Chain.v (stencils, hand-over, y-groups) tied by correspondence with the arrays of real grids",
              "CONTRACT: PsiContour.get_distance returns the arc length from the contour start (FineContour chord sums + interpolation); monitored against "
              "an independent circle-through-three-points arc estimate on every corpus grid")
    chk.assume("quadratic convergence in finecontour_Nfine is monitored in the thorough tier only")
    chk.coq()
    # the distance kernels: theories/Model_Quadrature.v (PrimFloat instance) against the real FineContour.calcDistance / reverse / getDistance
    from props import quad
    chk.trust("hand model theories/Model_Quadrature.v of FineContour.calcDistance / reverse / getDistance / interpFunction (numpy cumsum / argmin / searchsorted, closest_approach, scipy interp1d with extrapolation) and of FineContour.equaliseSpacing (refine stubbed to the identity: the model's contract; numpy's pairwise summation in numpy.mean modelled), "
              "run bit for bit (binary64) against the real methods on every run")
    qc = quad.correspondence(chk, 320 if chk.tier == "quick" else 3000, ["distance", "getdist", "interp", "equalise"], "distance")
    # (quick tier too: a connected double null written with start_at_upper_outer -- the periodic y-group must start at the first core region in y order)
    grids = corpus.get(tier=chk.tier, extra_cfgs=[] if chk.tier == "thorough" else [dict(corpus.CONFIGS["cdn_uo"], must_build=True)])
    n = len(qc[0]) if qc else 0
    worst = {}
    for g in grids:
        if not g.ok:
            continue
        orth = bool(g.d["mesh"]["user_options"].get("orthogonal", True))
        R = g.d["regions"]
        myg = int(g.d["mesh"]["user_options"].get("y_boundary_guards", 0))
        w = dict(stencil=0.0, arc=0.0, total=0.0)
        # ---- y_groups: model vs implementation
        ids = sorted(R)
        lower = {i: R[i]["connections"]["lower"] for i in ids}
        upper = {i: R[i]["connections"]["upper"] for i in ids}
        pick_last = info["pick_last"] if info else True
        if model_groups(lower, upper, len(ids), pick_last) != g.d["mesh"]["y_groups"]:
            chk.tie_broken("model:y_groups", f"grid {g.name}: the model's y-groups differ from Mesh.y_groups {g.d['mesh']['y_groups']}")
        for grp in g.d["mesh"]["y_groups"]:
            first = R[grp[0]]
            periodic = first["connections"]["lower"] is not None
            if periodic and grp[0] != min(grp):
                chk.fail("closed-chain-start", "on closed surfaces poloidal_distance (and zShift) are measured from a region that is not the first core region in y-index order",
                         {"grid": g.name, "y_group": [R[i]["name"] for i in grp], "documented": "from the poloidal location of the lower X-point (doc/grid-file.rst)"})
            # ---- poloidal_distance along the chain
            for loc, cpar in (("ylow", 1), ("corners", 0)):
                prev_last = None
                for q, rid in enumerate(grp):
                    r = R[rid]
                    A = r["arrays"]
                    pd_face = A["poloidal_distance"][loc]
                    pd_c = A["poloidal_distance"]["centre" if loc == "ylow" else "xlow"]
                    inter = np.empty((pd_face.shape[0], pd_face.shape[1] + pd_c.shape[1]))
                    inter[:, 0::2] = pd_face
                    inter[:, 1::2] = pd_c
                    n += inter.size
                    if not np.all(np.diff(inter, axis=1) > 0):
                        chk.fail("poloidal_distance:not-increasing", "poloidal_distance does not increase strictly with y along a flux surface", {"grid": g.name, "region": r["name"], "loc": loc})
                    if q == 0:
                        j0 = myg if not periodic and r["connections"]["lower"] is None else 0
                        if np.max(np.abs(pd_face[:, j0])) > 1e-12:
                            chk.fail("poloidal_distance:origin", "poloidal_distance is not zero at the lower target face (first region of an open chain) / at the start of a closed chain",
                                     {"grid": g.name, "region": r["name"], "loc": loc, "value": float(np.max(np.abs(pd_face[:, j0]))), "y_boundary_guards": myg})
                    else:
                        jump = np.max(np.abs(pd_face[:, 0] - prev_last))
                        if jump > 1e-9:
                            chk.fail("poloidal_distance:jump-at-join" + ("" if orth else ":nonorthogonal"), "poloidal_distance is not continuous across a region join",
                                     {"grid": g.name, "region": r["name"], "loc": loc, "jump": float(jump)})
                    prev_last = pd_face[:, -1]
                if periodic:
                    tot = R[grp[0]]["arrays"]["total_poloidal_distance"]["centre" if loc == "ylow" else "xlow"][:, 0]
                    # circumference = sum over the chain of each region's own extent
                    ext = sum(R[rid]["arrays"]["poloidal_distance"][loc][:, -1] - R[rid]["arrays"]["poloidal_distance"][loc][:, 0] for rid in grp)
                    e = float(np.max(np.abs(tot - ext) / ext))
                    w["total"] = max(w["total"], e)
                    if e > 1e-9:
                        chk.fail("total_poloidal_distance", "total_poloidal_distance is not the circumference of the closed surface (sum over all regions of the periodic chain)",
                                 {"grid": g.name, "y_group": [R[i]["name"] for i in grp], "loc": loc, "total": tot.tolist(), "circumference": ext.tolist()})
        # ---- hy against the distance lists (stencils) and the distance lists against independent arcs
        for rid, r in R.items():
            A = r["arrays"]
            dy = A["dy"]["centre"][0, 0]
            C = r["contours"]
            for loc_c, loc_f, par in (("centre", "ylow", 1), ("xlow", "corners", 0)):
                hyc, hyf = A["hy"][loc_c], A["hy"][loc_f]
                for i in range(hyc.shape[0]):
                    d = C[2 * i + par]["distance"]
                    e1 = np.max(np.abs(hyc[i, :] * dy - (d[2::2] - d[:-2:2])))
                    e2 = np.max(np.abs(hyf[i, 1:-1] * dy - (d[3:-1:2] - d[1:-3:2]))) if hyf.shape[1] > 2 else 0.0
                    lo, up = r["connections"]["lower"], r["connections"]["upper"]
                    want0 = d[1] - d[0] + (R[lo]["contours"][2 * i + par]["distance"][-1] - R[lo]["contours"][2 * i + par]["distance"][-2]) if lo is not None else 2.0 * (d[1] - d[0])
                    want1 = d[-1] - d[-2] + (R[up]["contours"][2 * i + par]["distance"][1] - R[up]["contours"][2 * i + par]["distance"][0]) if up is not None else 2.0 * (d[-1] - d[-2])
                    e3 = max(abs(hyf[i, 0] * dy - want0), abs(hyf[i, -1] * dy - want1))
                    w["stencil"] = max(w["stencil"], float(max(e1, e2, e3)))
                    if max(e1, e2, e3) > 1e-11:
                        chk.fail(f"hy-stencil:{loc_c if e1 > 1e-11 else loc_f}", "hy*dy is not the difference of the contour's distance list between the adjacent faces / centres (incl. across joins)",
                                 {"grid": g.name, "region": r["name"], "contour": 2 * i + par, "errors": [float(e1), float(e2), float(e3)]})
                    # independent arc length of each half cell
                    pts = C[2 * i + par]["points"]
                    arcs = arc3(pts)
                    dd = np.diff(d)
                    ok = np.ones(len(dd), dtype=bool)
                    ri = r["radialIndex"]
                    # the half cells touching an X-point have a kink / strongly varying curvature: excluded, as the property's X-point clause
                    xs, xe = r["xPointsAtStart"], r["xPointsAtEnd"]
                    if xs[ri] is not None or xs[ri + 1] is not None:
                        ok[:2] = False
                    if xe[ri] is not None or xe[ri + 1] is not None:
                        ok[-2:] = False
                    rel = np.abs(dd - arcs) / arcs
                    n += int(ok.sum())
                    if ok.any():
                        w["arc"] = max(w["arc"], float(rel[ok].max()))
                        if rel[ok].max() > 0.03:
                            k = int(np.argmax(np.where(ok, rel, 0)))
                            chk.fail("distance-not-arc-length", "the distance between consecutive contour points differs from the arc length of the flux surface between them",
                                     {"grid": g.name, "region": r["name"], "contour": 2 * i + par, "segment": k, "distance": float(dd[k]), "independent_arc": float(arcs[k])})
            for loc in ("centre", "xlow", "ylow", "corners"):
                if not np.all(A["hy"][loc] > 0):
                    chk.fail("hy-not-positive", "hy is not strictly positive", {"grid": g.name, "region": r["name"], "loc": loc})
        worst[g.name] = {k: float(f"{v:.3g}") for k, v in w.items()}
    chk.count(evaluations=n, distinct=n)
    chk.cov["rule"] = "every region, contour and y-group of the corpus grids: stencils vs the implementation's own distance lists, distance lists vs independent three-point arcs, chain continuity/origin/total"
    chk.notes["worst"] = worst
    chk.notes["correspondence"] = {"grids": [g.name for g in grids if g.ok], "values_checked": n}
    chk.sample({"worst": worst})
