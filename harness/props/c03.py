"""C03 -- field and profile values at grid points agree with the equilibrium."""
import math
import os
import random

import numpy as np
from scipy.interpolate import InterpolatedUnivariateSpline, RectBivariateSpline

import analytic
import common
import corpus
import crit
from common import REPO, GEN
from props import c18

import pyir
import geom1 as trg

LEVEL = "proof"
TWOPI = 2 * np.pi


def translate(chk):
    c18.translate(chk)
    try:
        text, d = trg.emit(REPO)
    except (pyir.TranslationError, SyntaxError, OSError) as e:
        chk.tie_broken("translate/geom1.py", f"translator refused the source: {e}")
        return None
    common.write_if_changed(os.path.join(GEN, "Gen_Geom1.v"), text)
    return d


# ------------------------------------------------------------------ independent evaluation of an equilibrium from its inputs
def transformed(inputs, opts):
    """the documented effect of reverse_current / psi_divide_twopi / reverse_Bt on the inputs (the spec, written here independently)"""
    psi2d, psi1d, f1 = np.array(inputs["psi2d"], dtype=float), np.array(inputs["psi1d"], dtype=float), np.array(inputs["fpol1d"], dtype=float)
    if opts.get("reverse_current"):
        psi2d, psi1d = -psi2d, -psi1d
    if opts.get("psi_divide_twopi"):
        psi2d, psi1d = psi2d / TWOPI, psi1d / TWOPI
    if opts.get("reverse_Bt"):
        f1 = -f1
    return psi2d, psi1d, f1


def effective_inputs(g):
    """inputs of a corpus grid after the documented option transformations and profile extension: (psi2d, psi1d, fpol1d, pressure)"""
    euo = g.d["eq"]["user_options"]
    var = {k: bool(euo.get(k)) for k in ("reverse_current", "psi_divide_twopi", "reverse_Bt", "extrapolate_profiles")}
    psi2d, psi1d, f1 = transformed(g.d["inputs"], var)
    pr = g.d["inputs"].get("pressure")
    pr = None if pr is None else np.array(pr, dtype=float)
    if var["extrapolate_profiles"] and len(f1) and euo.get("psi_sol") is not None:
        cand = [float(euo["psi_sol"]), float(euo["psi_sol_inner"])]
        psi_outer = max(cand) if psi1d[-1] > psi1d[0] else min(cand)
        psi1d, f1, pr2, _ = extended(psi1d, f1, pr if pr is not None else np.zeros_like(psi1d), psi_outer)
        pr = pr2 if pr is not None else None
    return psi2d, psi1d, f1, pr


class DctInterp:
    """own continuous extension of the inverse DCT-II (independent of hypnotoad.utils.dct_interpolation)"""

    def __init__(self, r1d, z1d, psi2d):
        from scipy.fft import dctn
        self.r0, self.z0, self.dr, self.dz = r1d[0], z1d[0], r1d[1] - r1d[0], z1d[1] - z1d[0]
        self.N, self.M = psi2d.shape
        X = dctn(psi2d, type=2)
        w1, w2 = np.full(self.N, 2.0), np.full(self.M, 2.0)
        w1[0] = w2[0] = 1.0
        self.C = X * w1[:, None] * w2[None, :] / (4.0 * self.N * self.M)

    def _basis(self, x, n, N, d):
        k = np.arange(N)
        a = np.pi * k / N
        t = np.multiply.outer(x + 0.5, a)
        if d == 0:
            return np.cos(t)
        if d == 1:
            return -np.sin(t) * a
        return -np.cos(t) * a * a

    def __call__(self, R, Z, dx=0, dy=0, grid=False):
        sh = np.shape(R)
        m, n = (np.ravel(R) - self.r0) / self.dr, (np.ravel(Z) - self.z0) / self.dz
        A, B = self._basis(m, None, self.N, dx), self._basis(n, None, self.M, dy)
        v = np.einsum("pi,ij,pj->p", A, self.C, B) / (self.dr**dx * self.dz**dy)
        return v.reshape(sh)


class Spl2:
    def __init__(self, r1d, z1d, psi2d):
        self.s = RectBivariateSpline(r1d, z1d, psi2d)

    def __call__(self, R, Z, dx=0, dy=0, grid=False):
        return self.s(R, Z, dx=dx, dy=dy, grid=False)


def crit_tols(spl, pt, atol=1e-6):
    """find_critical stops when Br^2+Bz^2 < xpoint_refine_atol (default 1e-6): bounds on the position and psi error of a critical point"""
    r, z = pt[0], pt[1]
    a, b, c = float(spl(r, z, dx=2)), float(spl(r, z, dx=1, dy=1)), float(spl(r, z, dy=2))
    lam = np.abs(np.linalg.eigvalsh(np.array([[a, b], [b, c]])))
    dpos = math.sqrt(atol) * r / lam.min()
    return 4 * dpos, 4 * 0.5 * lam.max() * dpos**2 + 1e-13


def profile(psi1d, vals, fsign=None):
    """1-D profile spline with constant continuation (ext=3), on increasing abscissa"""
    o = np.argsort(psi1d)
    return InterpolatedUnivariateSpline(np.asarray(psi1d)[o], np.asarray(vals)[o], ext=3)


def extended(psi1d, fpol, pressure, psi_outer):
    """the documented extrapolate_profiles: fpol constant, pressure decaying exponentially from its edge value and gradient, out to psi_outer"""
    inc = psi1d[-1] > psi1d[0]
    if (inc and psi_outer > psi1d[-1]) or (not inc and psi_outer < psi1d[-1]):
        sol = np.linspace(psi1d[-1], psi_outer, 50)[1:]
        p0 = pressure[-1]
        d = (pressure[-1] - pressure[-2]) / (psi1d[-1] - psi1d[-2])
        return np.concatenate([psi1d, sol]), np.concatenate([fpol, np.full(sol.shape, fpol[-1])]), np.concatenate([pressure, p0 * np.exp((sol - psi1d[-1]) * d / p0)]), sol
    return psi1d, fpol, pressure, np.array([])


# ------------------------------------------------------------------ profile-level cases
def profile_cases(tier):
    cases = []
    fams = ["lsn", "usn", "cdn", "udn", "ldn", "udn2"] + (["udn_m", "cdn_pert"] if tier == "thorough" else [])
    variants = [dict(), dict(extrapolate_profiles=True), dict(reverse_current=True), dict(reverse_Bt=True), dict(psi_divide_twopi=True),
                dict(reverse_current=True, psi_divide_twopi=True, reverse_Bt=True, extrapolate_profiles=True)]
    for fam in fams:
        for sign in (1.0, -1.0):
            g, h = crit.analytic_funcs(fam, sign)
            pts = crit.find_all(g, h, (1.25, 1.75, -0.45, 0.45), n=10)
            os_ = [p for p in pts if p[2] == "O"]
            xs = [p for p in pts if p[2] == "X"]
            ax = min(os_, key=lambda p: abs(p[1]))
            pa = float(analytic.psi(fam, ax[0], ax[1], sign))
            px = sorted((float(analytic.psi(fam, p[0], p[1], sign)) for p in xs), key=lambda v: abs(v - pa))
            base = dict(corpus.SN if len(xs) == 1 else (corpus.CDN if fam == "cdn" else corpus.DN))
            for var in variants:
                if tier == "quick" and fam in ("usn", "ldn") and len(var) == 1 and "extrapolate_profiles" not in var:
                    continue
                ext = bool(var.get("extrapolate_profiles"))
                last = px[0] if ext else pa + 1.6 * (px[0] - pa)
                opts = dict(base)
                opts.update(var)
                fac0 = (-1.0 if var.get("reverse_current") else 1.0) / (TWOPI if var.get("psi_divide_twopi") else 1.0)
                if ext:
                    # extrapolate_profiles needs psi_sol given explicitly (with the psinorm_* defaults __init__ raises TypeError: loud, observed in DESIGN.md)
                    opts["psi_sol"] = opts["psi_sol_inner"] = (pa + 1.2 * (px[0] - pa)) * fac0
                fac = (-1.0 if var.get("reverse_current") else 1.0) / (TWOPI if var.get("psi_divide_twopi") else 1.0)
                # sweep in the TRANSFORMED flux: either side of every separatrix, and out into the SOL
                sw = np.linspace(pa + 0.86 * (px[0] - pa), pa + 1.24 * (px[0] - pa), 39) * fac
                nprobe = 0
                if ext:
                    step = (pa + 1.2 * (px[0] - pa) - px[0]) / 49.0
                    probes = (px[0] + step * np.array([0.25, 0.5, 1.0, 2.0, 4.0, 10.0, 30.0])) * fac
                    sw = np.concatenate([sw, probes])
                    nprobe = len(probes)
                rng = random.Random(len(cases))
                P = [(rng.uniform(1.3, 1.7), rng.uniform(-0.4, 0.4)) for _ in range(6)]
                cases.append(dict(family=fam, sign=sign, options=opts, variant=var, psi_first=pa, psi_last=last, sweep=sw.tolist(), nprobe=nprobe, points=P,
                                  p_edge=50.0, fpol_sign=1.0))
                if not var and fam in ("lsn", "udn"):
                    # the same profiles handed over in the opposite order (psi1D listed from the edge to the axis)
                    cases.append(dict(cases[-1], reverse_order=True))
    return cases


def check_profiles(chk, tr):
    cases = profile_cases(chk.tier)
    rc, res, o, e = common.run_impl_json("impl/profiles.py", dict(cases=cases), timeout=1200)
    if res is None:
        chk.tie_broken("impl/profiles.py", f"implementation run failed rc={rc}: {(o + e)[-1500:]}")
        return 0
    n = 0
    dist = {}
    worst = dict(psi=0.0, fpol=0.0, pressure_core=0.0, pressure_leg=0.0, scalars=0.0, extrap_nodes=0.0)
    for c, r in zip(cases, res):
        tag = f"{c['family']}:sign={c['sign']:+.0f}:{'+'.join(sorted(c['variant'])) or 'plain'}" + (":psi1D-edge-to-axis" if c.get("reverse_order") else "")
        if "error" in r:
            chk.fail(f"profiles:refused:{'+'.join(sorted(c['variant'])) or 'plain'}", "TokamakEquilibrium refused a supported analytic equilibrium with profiles", {"case": tag, "error": r["error"]})
            continue
        inp = {k: np.array(v) for k, v in r["inputs"].items()}
        n1 = len(inp["r1d"])
        r2d, z2d = np.meshgrid(inp["r1d"], inp["z1d"], indexing="ij")
        inp["psi2d"] = analytic.psi(c["family"], r2d, z2d, c["sign"], 1.0)
        psi2d, psi1d, f1 = transformed(inp, c["variant"])
        pr = inp["pressure"]
        spl = Spl2(inp["r1d"], inp["z1d"], psi2d)
        g, h = crit.spline_funcs(spl)
        cps = crit.find_all(g, h, (1.25, 1.75, -0.45, 0.45), n=10, gscale=float(np.max(np.abs(psi2d))) / 0.3)
        ax = min((p for p in cps if p[2] == "O"), key=lambda p: abs(p[1]))
        pa = float(spl(ax[0], ax[1]))
        xs = sorted((p for p in cps if p[2] == "X"), key=lambda p: abs(float(spl(p[0], p[1])) - pa))
        px = [float(spl(p[0], p[1])) for p in xs]
        sgn = float(np.sign(px[0] - pa))
        sol = np.array([])
        if c["variant"].get("extrapolate_profiles"):
            psi1d, f1, pr, sol = extended(psi1d, f1, pr, float(c["options"]["psi_sol"]))
        Pp, Pf = profile(psi1d, pr), profile(psi1d, f1)
        sw = np.array(c["sweep"])
        P = np.array(c["points"])
        sc = abs(px[0] - pa)

        def cmp(key, what, got, want, tol, scale, extra=None, wk=None):
            nonlocal n
            got, want = np.asarray(got, dtype=float), np.asarray(want, dtype=float)
            err = np.abs(got - want) / scale
            n += err.size
            if wk:
                worst[wk] = max(worst[wk], float(err.max()))
            if not np.all(err <= tol):
                k = int(np.nanargmax(np.where(np.isfinite(err), err, np.inf)))
                rp = {"case": tag, "family": c["family"], "sign": c["sign"], "options": c["variant"], "index": k, "got": float(got.ravel()[k]), "expected": float(want.ravel()[k])}
                rp.update(extra or {})
                chk.fail(key, what, rp)
        vkey = "+".join(sorted(k for k in c["variant"] if k != "extrapolate_profiles")) or "plain"
        cmp(f"profiles:psi:{vkey}", "eq.psi is not the interpolant of the (option-transformed) input flux", r["eq_psi"], spl(P[:, 0], P[:, 1]), 1e-11, sc, wk="psi")
        cmp(f"profiles:fpol:{vkey}", "eq.fpol(psi) is not the input profile evaluated at psi", r["eq_fpol"], Pf(sw), 1e-10, 1.0, {"psi": sw.tolist()}, wk="fpol")
        dpo, tpo = crit_tols(spl, ax)
        dpx, tpx = crit_tols(spl, xs[0])
        bt = float(Pf(pa)) / ax[0]
        for key, got, want, tol in (("psi_axis", r["psi_axis"], pa, tpo), ("psi_bdry", r["psi_bdry"], px[0], tpx),
                                    ("Bt_axis", r["Bt_axis"], bt, abs(bt) * dpo / ax[0] + 10 * tpo + 1e-12)):
            n += 1
            worst["scalars"] = max(worst["scalars"], abs(got - want))
            if abs(got - want) > tol:
                chk.fail(f"scalar:{key}:{vkey}", f"{key} is not the value at the O-point / primary X-point of the interpolated equilibrium", {"case": tag, "got": got, "expected": want, "o_point": list(ax[:2]), "x_points": [list(p[:2]) for p in xs]})
        ext = "extrap" if len(sol) else "noextrap"
        if len(sol):
            # continuity (the property): no jump between the last input point and the extension; positive and monotone beyond
            psi0, p0 = psi1d[len(psi1d) - len(sol) - 1], pr[len(pr) - len(sol) - 1]
            dpd = (inp["pressure"][-1] - inp["pressure"][-2]) / ((psi1d[len(psi1d) - len(sol) - 1]) - (psi1d[len(psi1d) - len(sol) - 2]))
            k0 = len(sw) - c["nprobe"]
            probe, gotp = sw[k0:], np.array(r["eq_pressure"])[k0:]
            jump = np.abs(gotp - p0)
            bound = 3.0 * abs(dpd) * np.abs(probe - psi0) + 0.02 * abs(p0)
            n += jump.size
            if np.any(jump > bound):
                k = int(np.argmax(jump - bound))
                chk.fail("extrapolated-pressure:discontinuous", "with extrapolate_profiles the pressure profile is not continuous at the last input point psi1D[-1]",
                         {"case": tag, "family": c["family"], "sign": c["sign"], "options": c["variant"], "psi_edge": float(psi0), "p_edge": float(p0), "dpdpsi": float(dpd),
                          "psi": float(probe[k]), "pressure_there": float(gotp[k])})
            if tr is not None:
                # translation validation of T_extrap on the probes (the code splines 49 nodes of it)
                mod = np.array([trg.py_eval(tr["extrap"], dict(p0=float(p0), dpdpsi=float(dpd), psi0=float(psi0), p=float(x))) for x in probe])
                if np.max(np.abs(mod - gotp) / np.maximum(np.abs(mod), abs(p0))) > 5e-3:
                    chk.tie_broken("translation-validation:T_extrap", f"{tag}: the translated extension formula gives {mod.tolist()} at psi={probe.tolist()}, eq.pressure gives {gotp.tolist()}")
        out_side = sgn * (sw - psi1d[-1]) > 0 if not len(sol) else np.zeros_like(sw, dtype=bool)
        tolp = 1e-9 if not len(sol) else 2e-3
        cmp(f"profiles:pressure:{vkey}:{ext}", "eq.pressure(psi) is not the input profile evaluated at psi", r["eq_pressure"], Pp(sw), tolp, float(np.max(pr)), {"psi": sw.tolist()}, wk="pressure_core")
        for name, reg in r["regions"].items():
            if not reg["has_pressure"]:
                chk.fail("region-without-pressure", "a region has no pressure function although a pressure profile was given", {"case": tag, "region": name})
                continue
            got = np.array(reg["pressure"])
            if "wall" in reg["kind"]:
                if not reg["xpoints"]:
                    chk.tie_broken("oracle:leg-without-xpoint", f"{tag}: leg region {name} has no X-point")
                    continue
                leg = float(spl(reg["xpoints"][0][0], reg["xpoints"][0][1]))
                want = Pp(leg + sgn * np.abs(sw - leg))
                dist[name] = dist.get(name, 0) + 1
                which = "primary" if abs(leg - px[0]) < 1e-9 * sc + 1e-12 else "secondary"
                cmp(f"leg-pressure:{which}-separatrix:{ext}", "the pressure of a divertor-leg region is not the profile at psi outside its own separatrix / reflected about it inside the private region",
                    got, want, tolp, float(np.max(pr)), {"region": name, "leg_psi": leg, "psi_sep": px, "psi": sw.tolist()}, wk="pressure_leg")
            else:
                cmp(f"core-pressure:{ext}", "the pressure of a core region is not the profile at psi", got, Pp(sw), tolp, float(np.max(pr)), {"region": name}, wk="pressure_core")
    chk.notes["profile_cases"] = {"count": len(cases), "leg_regions_checked": dist, "worst": {k: float(f"{v:.3g}") for k, v in worst.items()}}
    return n


# ------------------------------------------------------------------ grid level
def check_grids(chk, tr):
    # the dct-interpolated member belongs to the quick tier of this property (finding F30: with that method the scalars came from another interpolant)
    grids = corpus.get(tier=chk.tier, extra_cfgs=[] if chk.tier == "thorough" else [dict(corpus.CONFIGS["lsn_dct"], must_build=True)])
    n = 0
    worst = {}
    for g in grids:
        if not g.ok or g.cfg["kind"] != "tokamak":
            continue
        d = g.d
        uo = d["mesh"]["user_options"]
        euo = d["eq"]["user_options"]
        var = {k: bool(euo.get(k)) for k in ("reverse_current", "psi_divide_twopi", "reverse_Bt", "extrapolate_profiles")}
        inp = d["inputs"]
        psi2d, psi1d, f1 = transformed(inp, var)
        method = euo.get("psi_interpolation_method", "spline")
        spl = Spl2(inp["r1d"], inp["z1d"], psi2d) if method == "spline" else DctInterp(inp["r1d"], inp["z1d"], psi2d)
        tolf = 1e-10 if method == "spline" else 1e-8
        gf, hf = crit.spline_funcs(spl)
        box = (1.25, 1.75, -0.45, 0.45)
        cps = crit.find_all(gf, hf, box, n=10, gscale=float(np.max(np.abs(psi2d))) / 0.3)
        ax = min((p for p in cps if p[2] == "O"), key=lambda p: np.hypot(p[0] - 1.5, p[1]))
        pa = float(spl(ax[0], ax[1]))
        xs = sorted((p for p in cps if p[2] == "X"), key=lambda p: abs(float(spl(p[0], p[1])) - pa))
        px = [float(spl(p[0], p[1])) for p in xs]
        sgn = float(np.sign(px[0] - pa))
        pr = None if inp["pressure"] is None else np.array(inp["pressure"], dtype=float)
        if var["extrapolate_profiles"] and len(f1):
            cand = [float(euo["psi_sol"]), float(euo["psi_sol_inner"])]
            psi_outer = max(cand) if psi1d[-1] > psi1d[0] else min(cand)
            psi1d, f1, pr, _ = extended(psi1d, f1, pr if pr is not None else np.zeros_like(psi1d), psi_outer)
            if inp["pressure"] is None:
                pr = None
        Pf = profile(psi1d, f1) if len(f1) else (lambda x: 0.0 * np.asarray(x))
        Pp = profile(psi1d, pr) if pr is not None else None
        tolp = 1e-9 if not var["extrapolate_profiles"] else 2e-3
        vkey = "+".join(sorted(k for k, v in var.items() if v)) or "plain"
        w = dict(Br=0.0, Bp=0.0, Bt=0.0, B=0.0, p=0.0)
        signs = set()
        for rid, r in d["regions"].items():
            A = r["arrays"]
            bps = float(r["bpsign"])
            for loc in ("centre", "xlow", "ylow", "corners"):
                R, Z = A["Rxy"][loc], A["Zxy"][loc]
                psi = spl(R, Z)
                pR, pZ = spl(R, Z, dx=1), spl(R, Z, dy=1)
                Br, Bz = pZ / R, -pR / R
                sc = float(np.max(np.hypot(Br, Bz)))
                if loc in A["Brxy"]:
                    for nm, got, want in (("Brxy", A["Brxy"][loc], Br), ("Bzxy", A["Bzxy"][loc], Bz)):
                        e = np.abs(got - want) / sc
                        n += e.size
                        w["Br"] = max(w["Br"], float(e.max()))
                        if e.max() > tolf:
                            p = np.unravel_index(np.argmax(e), e.shape)
                            chk.fail(f"{nm}:{method}:{vkey}", f"{nm} is not {'(dpsi/dZ)/R' if nm == 'Brxy' else '-(dpsi/dR)/R'} of the interpolated equilibrium",
                                     {"grid": g.name, "region": r["name"], "loc": loc, "index": [int(p[0]), int(p[1])], "got": float(got[p]), "independent": float(want[p])})
                if loc in A["Bpxy"]:
                    Bp = A["Bpxy"][loc]
                    e = np.abs(np.abs(Bp) - np.hypot(Br, Bz)) / sc
                    n += e.size
                    w["Bp"] = max(w["Bp"], float(e.max()))
                    if e.max() > tolf:
                        chk.fail(f"Bpxy-magnitude:{method}", "|Bpxy| is not sqrt(Brxy^2+Bzxy^2) of the interpolated equilibrium", {"grid": g.name, "region": r["name"], "loc": loc, "max_rel_err": float(e.max())})
                    nz = Bp[np.abs(Bp) > 1e-9 * sc]
                    signs |= set(np.sign(nz).tolist())
                    if tr is not None and loc in A["Brxy"]:
                        m = np.sqrt(A["Brxy"][loc] ** 2 + A["Bzxy"][loc] ** 2)
                        if np.max(np.abs(np.abs(Bp) - m)) > 4e-16 * sc + 1e-300:
                            chk.tie_broken("translation-validation:G1_Bp_mag", f"grid {g.name}: |Bpxy| differs from the translated magnitude of the region's own Brxy, Bzxy")
                if loc in A["Btxy"]:
                    want = Pf(psi) / R
                    e = np.abs(A["Btxy"][loc] - want) / max(float(np.max(np.abs(want))), 1e-300) if len(f1) else np.abs(A["Btxy"][loc])
                    n += e.size
                    w["Bt"] = max(w["Bt"], float(e.max()))
                    if e.max() > 1e-9:
                        p = np.unravel_index(np.argmax(e), e.shape)
                        chk.fail(f"Btxy:{vkey}", "Btxy is not fpol(psi)/R", {"grid": g.name, "region": r["name"], "loc": loc, "index": [int(p[0]), int(p[1])], "got": float(A["Btxy"][loc][p]), "independent": float(want[p])})
                    if loc in A["Bxy"] and loc in A["Bpxy"]:
                        wantB = np.sqrt(np.hypot(Br, Bz) ** 2 + want**2)
                        e = np.abs(A["Bxy"][loc] - wantB) / float(np.max(wantB))
                        w["B"] = max(w["B"], float(e.max()))
                        n += e.size
                        if e.max() > max(tolf, 1e-9):
                            chk.fail("Bxy", "Bxy is not sqrt(Bpxy^2+Btxy^2)", {"grid": g.name, "region": r["name"], "loc": loc, "max_rel_err": float(e.max())})
                if Pp is not None:
                    if "pressure" not in A or loc not in A["pressure"]:
                        if loc in ("centre", "ylow", "xlow"):
                            chk.fail("pressure-missing", "a pressure profile was given but the region has no pressure values at this location", {"grid": g.name, "region": r["name"], "loc": loc})
                        continue
                    leg = None
                    if "divertor" in r["eqname"]:
                        xp = [p for p in list(r["xPointsAtStart"]) + list(r["xPointsAtEnd"]) if p is not None]
                        leg = float(spl(xp[0][0], xp[0][1]))
                        want = Pp(leg + sgn * np.abs(psi - leg))
                    else:
                        want = Pp(psi)
                    e = np.abs(A["pressure"][loc] - want) / float(np.max(pr))
                    n += e.size
                    w["p"] = max(w["p"], float(e.max()))
                    if e.max() > tolp:
                        p = np.unravel_index(np.argmax(e), e.shape)
                        which = "core" if leg is None else ("leg:primary-separatrix" if abs(leg - px[0]) < 1e-9 else "leg:secondary-separatrix")
                        chk.fail(f"grid-pressure:{which}:{vkey}", "pressure at a grid point is not the input profile at psi (reflected about the leg's own separatrix in private-flux regions)",
                                 {"grid": g.name, "region": r["name"], "loc": loc, "index": [int(p[0]), int(p[1])], "psi": float(psi[p]), "leg_psi": leg, "got": float(A["pressure"][loc][p]), "independent": float(want[p])})
            # ---- sign of Bpxy = sign of Bp along increasing y, at EVERY cell (not only the sampled one)
            Rl, Zl = A["Rxy"]["ylow"], A["Zxy"]["ylow"]
            dRy, dZy = Rl[:, 1:] - Rl[:, :-1], Zl[:, 1:] - Zl[:, :-1]
            Rc, Zc = A["Rxy"]["centre"], A["Zxy"]["centre"]
            dot = (spl(Rc, Zc, dy=1) / Rc) * dRy + (-spl(Rc, Zc, dx=1) / Rc) * dZy
            ok = np.abs(dot) > 1e-3 * np.max(np.abs(dot))
            n += int(ok.sum())
            bad = ok & (np.sign(dot) != np.sign(A["Bpxy"]["centre"]))
            if bad.any():
                p = np.argwhere(bad)[0]
                chk.fail(f"Bpxy-sign:bpsign={bps:+.0f}", "the sign of Bpxy is not the sign of the poloidal field along increasing y", {"grid": g.name, "region": r["name"], "index": p.tolist(), "Bp.dy": float(dot[tuple(p)]), "Bpxy": float(A["Bpxy"]["centre"][tuple(p)])})
            # ---- the model's decision on the sampled point reproduces the region's sign
            if tr is not None:
                ny = Rc.shape[1]
                j = ny // 2
                if 1 <= j < ny - 1:
                    env = dict(Brs=float(A["Brxy"]["centre"][-1, j]), Bzs=float(A["Bzxy"]["centre"][-1, j]), Rp=float(Rc[-1, j + 1]), Rm=float(Rc[-1, j - 1]), Zp=float(Zc[-1, j + 1]), Zm=float(Zc[-1, j - 1]))
                    dt = trg.py_eval(tr["dot"], env)
                    s_model = -1.0 if dt < 0 else 1.0
                    pv = r["psi_vals"]
                    b_model = trg.py_eval(tr["bpsign_then"], {}) if pv[0] > pv[-1] else trg.py_eval(tr["bpsign_else"], {})
                    if b_model != bps or s_model != float(np.sign(A["Bpxy"]["centre"][-1, j])):
                        chk.tie_broken("model:G1_decision", f"grid {g.name} region {r['name']}: translated decision gives sign {s_model}, bpsign {b_model}; implementation has {np.sign(A['Bpxy']['centre'][-1, j])}, {bps}")
        if len(signs) > 1:
            chk.fail("Bpxy-sign:not-uniform", "Bpxy does not have one sign over the whole grid", {"grid": g.name})
        # ---- scalars
        F = d["file"]
        E = d["eq"]
        dpo, tpo = crit_tols(spl, ax)
        dpx, tpx = crit_tols(spl, xs[0])
        bt = float(Pf(pa)) / ax[0]
        for key, got, want, tol in (("psi_axis", float(F["psi_axis"]), pa, tpo), ("psi_bdry", float(F["psi_bdry"]), px[0], tpx),
                                    ("Bt_axis", float(F["Bt_axis"]), bt, abs(bt) * dpo / ax[0] + 10 * tpo + 1e-12)):
            n += 1
            if abs(got - want) > tol:
                chk.fail(f"scalar:{key}:{vkey}", f"{key} in the grid file is not the value at the O-point / primary X-point of the interpolated equilibrium",
                         {"grid": g.name, "got": got, "expected": want, "o_point": list(ax[:2]), "x_points": [list(p[:2]) for p in xs]})
        worst[g.name] = {k: float(f"{v:.3g}") for k, v in w.items()}
    chk.notes["grid_worst_relative_error"] = worst
    return n


def run(chk):
    tr = translate(chk)
    chk.trust("translate/geom1.py (geometry1 field formulas and sign decision, leg-pressure lambda incl. how leg_psi is bound, extrapolation formula) and translate/fields.py",
              "hand model theories/Model_Profiles.v of Python's closure binding in the region loop, tied by the profile-level correspondence with real TokamakEquilibrium objects",
              "CONTRACT: RectBivariateSpline / InterpolatedUnivariateSpline (FITPACK) evaluate the interpolants of the inputs; the oracle rebuilds the same interpolants from the inputs independently "
              "(own DCT evaluator for the dct method) and applies the documented option transformations itself")
    chk.assume("the profile spline through the 49 extension nodes is compared with the exponential formula at 2e-3 of the peak pressure")
    chk.coq()
    n = check_profiles(chk, tr)
    n += check_grids(chk, tr)
    chk.count(evaluations=n, distinct=n)
    chk.cov["rule"] = ("profile level: analytic families x both signs of psi x option variants (plain, extrapolate_profiles with a geqdsk-like profile grid, reverse_current, reverse_Bt, "
                       "psi_divide_twopi, all together): psi, fpol, pressure, every region's pressure closure on a flux sweep across all separatrices, psi_axis, psi_bdry, Bt_axis.  "
                       "grid level: every point (4 locations) of every region of the tokamak corpus grids: Brxy, Bzxy, |Bpxy|, sign of Bpxy vs Bp.dy at every cell, Btxy, Bxy, pressure, scalars")
