"""C19 -- critical points are found, classified, ordered and selected correctly."""
import math
import os
import random
import re
from fractions import Fraction

import numpy as np
from scipy.interpolate import RectBivariateSpline

import common
import corpus
import crit
from common import REPO, GEN
from corpus import tok, SN, DN, CDN

import pyir
import critical as trc

LEVEL = "proof"


def translate(chk):
    try:
        text, d = trc.emit(REPO)
    except (pyir.TranslationError, SyntaxError, OSError) as e:
        chk.tie_broken("translate/critical.py", f"translator refused the source: {e}")
        return None
    common.write_if_changed(os.path.join(GEN, "Gen_Critical.v"), text)
    return d


# ------------------------------------------------------------------ sampled flux functions
def gauss(blobs, sign):
    def psi(R, Z):
        out = 0.0
        for a, rc, zc, w in blobs:
            out = out + a * np.exp(-((R - rc) ** 2 + (Z - zc) ** 2) / w**2)
        return sign * out

    def grad(R, Z):
        gR = gZ = 0.0
        for a, rc, zc, w in blobs:
            e = a * np.exp(-((R - rc) ** 2 + (Z - zc) ** 2) / w**2)
            gR, gZ = gR + e * (-2 * (R - rc) / w**2), gZ + e * (-2 * (Z - zc) / w**2)
        return sign * gR, sign * gZ

    def hess(R, Z):
        hRR = hRZ = hZZ = 0.0
        for a, rc, zc, w in blobs:
            e = a * np.exp(-((R - rc) ** 2 + (Z - zc) ** 2) / w**2)
            p, q = -2 * (R - rc) / w**2, -2 * (Z - zc) / w**2
            hRR, hRZ, hZZ = hRR + e * (p * p - 2 / w**2), hRZ + e * p * q, hZZ + e * (q * q - 2 / w**2)
        return sign * hRR, sign * hRZ, sign * hZZ
    return psi, grad, hess


def make_cases(rng, tier):
    cases = []
    want = 24 if tier == "quick" else 120
    tries = 0
    while len(cases) < want and tries < 40 * want:
        tries += 1
        nr, nz = rng.choice([(33, 33), (49, 65), (65, 65), (80, 57)])
        rmin, rmax, zmin, zmax = 1.0, 2.0, -0.75, 0.75
        k = rng.choice([2, 3, 3, 4])
        if len(cases) % 3 == 2:
            # hills displaced DIAGONALLY: the saddle between them is tilted ~45 degrees against the grid and asymmetric, so psi_RR and psi_ZZ have the SAME sign
            # there and only the mixed derivative makes the Hessian determinant negative
            w = rng.uniform(0.18, 0.24)
            dx, dz = rng.choice([-1, 1]) * rng.uniform(0.28, 0.42), rng.choice([-1, 1]) * rng.uniform(0.28, 0.42)
            c0 = (1.5 + rng.uniform(-0.03, 0.03), rng.uniform(-0.05, 0.05))
            blobs = [(1.0, c0[0] - dx / 2, c0[1] - dz / 2, w), (rng.uniform(0.8, 1.0), c0[0] + dx / 2, c0[1] + dz / 2, w * rng.uniform(0.9, 1.1))]
        else:
            blobs = [(1.0, 1.5 + rng.uniform(-0.04, 0.04), rng.uniform(-0.06, 0.06), rng.uniform(0.25, 0.35))]
            for _ in range(k - 1):
                blobs.append((rng.uniform(0.7, 1.1), 1.5 + rng.uniform(-0.25, 0.25), rng.choice([-1, 1]) * rng.uniform(0.45, 0.7), rng.uniform(0.22, 0.35)))
        sign = rng.choice([1.0, -1.0])
        psi, grad, hess = gauss(blobs, sign)
        dR, dZ = (rmax - rmin) / (nr - 1), (zmax - zmin) / (nz - 1)
        box = (rmin + 2 * dR, rmax - 2 * dR, zmin + 2 * dZ, zmax - 2 * dZ)
        wide = (rmin + 0.2 * dR, rmax - 0.2 * dR, zmin + 0.2 * dZ, zmax - 0.2 * dZ)
        pts = crit.find_all(grad, hess, wide, n=16)
        # well-separated, non-degenerate, clearly inside or clearly outside the searched interior
        ok = True
        for i, p in enumerate(pts):
            a, b, c = (float(x) for x in hess(p[0], p[1]))
            lam = np.linalg.eigvalsh(np.array([[a, b], [b, c]]))
            if min(abs(lam)) < 1.0:
                ok = False
            if min(abs(p[0] - box[0]), abs(p[0] - box[1])) < 1.5 * dR or min(abs(p[1] - box[2]), abs(p[1] - box[3])) < 1.5 * dZ:
                ok = False
            for q in pts[i + 1:]:
                if math.hypot(p[0] - q[0], p[1] - q[1]) < 6 * max(dR, dZ):
                    ok = False
        inside = [p for p in pts if box[0] < p[0] < box[1] and box[2] < p[1] < box[3]]
        if not ok or not any(p[2] == "O" for p in inside) or not any(p[2] == "X" for p in inside):
            continue
        same_sign = sum(1 for p in inside if p[2] == "X" and float(hess(p[0], p[1])[0]) * float(hess(p[0], p[1])[2]) > 0)
        cases.append(dict(blobs=blobs, sign=sign, nr=nr, nz=nz, rmin=rmin, rmax=rmax, zmin=zmin, zmax=zmax, atol=1e-6, maxits=50, truth=[list(p) for p in inside],
                          saddles_with_same_sign_diagonal=same_sign))
    return cases


# ------------------------------------------------------------------ python twin of the candidate search (translated Newton / discriminant), Coq model for the rest
def cev(e, env, samp=None):
    k = e[0]
    if k == "var":
        return env[e[1]]
    if k == "const":
        return float(e[1])
    if k == "neg":
        return -cev(e[1], env, samp)
    if k == "samp":
        return samp(e[1], e[2])
    a, b = cev(e[1], env, samp), cev(e[2], env, samp)
    return a + b if k == "add" else a - b if k == "sub" else a * b if k == "mul" else a / b


def twin_search(tr, c):
    r1d = np.linspace(c["rmin"], c["rmax"], c["nr"])
    z1d = np.linspace(c["zmin"], c["zmax"], c["nz"])
    R, Z = np.meshgrid(r1d, z1d, indexing="ij")
    psi = gauss(c["blobs"], c["sign"])[0](R, Z)
    f = RectBivariateSpline(r1d, z1d, psi)
    Bp2 = (f(R, Z, dx=1, grid=False) ** 2 + f(R, Z, dy=1, grid=False) ** 2) / R**2
    dR, dZ = R[1, 0] - R[0, 0], Z[0, 1] - Z[0, 0]
    radius_sq = 9 * (dR**2 + dZ**2)
    os_, xs = [], []
    nx, ny = Bp2.shape
    for i in range(2, nx - 2):
        for j in range(2, ny - 2):
            b = Bp2[i, j]
            nb = [Bp2[i + 1, j + 1], Bp2[i + 1, j], Bp2[i + 1, j - 1], Bp2[i - 1, j + 1], Bp2[i - 1, j], Bp2[i - 1, j - 1], Bp2[i, j + 1], Bp2[i, j - 1]]
            if not all(b < v for v in nb):
                continue
            R0, Z0 = R[i, j], Z[i, j]
            R1, Z1 = R0, Z0
            count = 0
            while True:
                env = dict(r=R1, fR=float(f(R1, Z1, dx=1, grid=False)), fZ=float(f(R1, Z1, dy=1, grid=False)))
                Br, Bz = cev(tr["Br"], env), cev(tr["Bz"], env)
                if Br**2 + Bz**2 < c["atol"]:
                    D = cev(tr["D"], dict(dR=dR, dZ=dZ), samp=lambda a, b2: psi[i + a, j + b2])
                    (xs if D < 0.0 else os_).append((R1, Z1, float(f(R1, Z1)[0][0])))
                    break
                env2 = dict(r=R1, Br=Br, Bz=Bz, fRR=float(f(R1, Z1, dx=2)[0][0]), fRZ=float(f(R1, Z1, dx=1, dy=1)[0][0]), fZZ=float(f(R1, Z1, dy=2)[0][0]))
                J = np.array([[cev(tr["J00"], env2), cev(tr["J01"], env2)], [cev(tr["J10"], env2), cev(tr["J11"], env2)]])
                d = np.dot(np.linalg.inv(J), [Br, Bz])
                R1, Z1 = R1 - d[0], Z1 - d[1]
                count += 1
                if ((R1 - R0) ** 2 + (Z1 - Z0) ** 2 > radius_sq) or (count > c["maxits"]):
                    break
    return os_, xs, f, (0.5 * (R[-1, 0] + R[0, 0]), 0.5 * (Z[0, -1] + Z[0, 0]))


def q(x):
    fr = Fraction(float(x))
    return f"({fr.numerator} # {fr.denominator})"


def qlist(l):
    return "[" + "; ".join(q(x) for x in l) + "]"


def ptlist(l):
    return "[" + "; ".join(f"({q(p[0])}, {q(p[1])}, {q(p[2])})" for p in l) + "]"


def coq_post(chk, batches):
    """batches: list of (os, xs, rmid, zmid, plines, dists) -> list of (o_order, x_order) index lists, evaluated by vm_compute in the model"""
    L = ["From Coq Require Import QArith List Bool.", "From HT Require Import Model_Critical.", "Import ListNotations.", "Local Open Scope Q_scope.",
         "Definition peq (a b : pt) : bool := Qeq_bool (pR a) (pR b) && Qeq_bool (pZ a) (pZ b) && Qeq_bool (pPsi a) (pPsi b).",
         "Fixpoint index_of (p : pt) (l : list pt) (i : nat) : nat := match l with [] => i | x :: r => if peq p x then i else index_of p r (S i) end.",
         "Definition run (os xs : list pt) (rmid zmid : Q) (samples : list (list Q * list Q)) : list nat * list nat :=",
         "  let oo := order_opoints (1 # 100000) rmid zmid os in",
         "  let po := match oo with p :: _ => pPsi p | [] => 0 end in",
         "  let keep := fun p => match nth_error samples (index_of p xs 0) with Some (pl, ds) => keep_xpoint pl ds (pPsi p) po | None => false end in",
         "  (map (fun p => index_of p os 0) oo, map (fun p => index_of p xs 0) (order_xpoints (1 # 100000) po keep xs)).", ""]
    for k, (os_, xs, rmid, zmid, samples) in enumerate(batches):
        ss = "[" + "; ".join(f"({qlist(pl)}, {qlist(ds)})" for pl, ds in samples) + "]"
        L.append(f"Definition r{k} := Eval vm_compute in run {ptlist(os_)} {ptlist(xs)} {q(rmid)} {q(zmid)} {ss}.")
        L.append(f"Print r{k}.")
    rc, out, err = common.coq_eval("c19_cases", "\n".join(L), timeout=900)
    if rc != 0:
        chk.tie_broken("coq-eval:c19_cases", f"coqc failed: {(out + err)[-800:]}")
        return None
    res = []
    for m in re.finditer(r"r(\d+) =\s*\(\[([^\]]*)\],\s*\[([^\]]*)\]\)", out.replace("\n", " ")):
        o = [int(x) for x in re.findall(r"\d+", m.group(2))]
        x = [int(x) for x in re.findall(r"\d+", m.group(3))]
        res.append((int(m.group(1)), o, x))
    res.sort()
    if len(res) != len(batches):
        chk.tie_broken("coq-eval:c19_cases", f"could not parse {len(batches)} results from coqc output ({len(res)} found)")
        return None
    return [(o, x) for _, o, x in res]


def saddle_oracle(chk):
    """the isolated X-point case: Equilibrium.findSaddlePoint on analytic saddles (tilted, non-separable, both signs of psi) with the search box described from
    each of its four corners and rotated -- the X-point inside the box is returned where grad(psi) vanishes, whatever the description of the box"""
    rng = random.Random(chk.seed + 1907)
    cases = []
    for k in range(4 if chk.tier == "quick" else 24):
        x0 = (rng.uniform(0.9, 1.1), rng.uniform(-0.05, 0.05))
        coef = [rng.uniform(0.7, 1.3), rng.uniform(0.5, 1.2), rng.uniform(-0.3, 0.3), rng.uniform(-0.5, 0.5), rng.uniform(-0.4, 0.4), rng.uniform(-0.2, 0.2)]
        sign = rng.choice([1.0, -1.0])
        side, cen = 0.3, (x0[0] + rng.uniform(-0.03, 0.03), x0[1] + rng.uniform(-0.03, 0.03))
        for ang in (0.0, math.radians(rng.choice([4.0, -6.0, 8.0]))):
            e1 = (-math.sin(ang), math.cos(ang))
            e2 = (e1[1], -e1[0])
            q1 = (cen[0] - 0.5 * side * (e1[0] + e2[0]), cen[1] - 0.5 * side * (e1[1] + e2[1]))
            corners = [q1, (q1[0] + side * e1[0], q1[1] + side * e1[1]), (q1[0] + side * (e1[0] + e2[0]), q1[1] + side * (e1[1] + e2[1])), (q1[0] + side * e2[0], q1[1] + side * e2[1])]
            for j in range(4):
                cases.append(dict(coef=coef, sign=sign, x0=list(x0), p1=list(corners[j]), p2=list(corners[(j + 1) % 4]), angle=ang, start_corner=j))
    rc, res, o, e = common.run_impl_json("impl/saddle.py", dict(cases=cases, limit=15), timeout=1500)
    if res is None or len(res) != len(cases):
        chk.tie_broken("impl/saddle.py", f"rc={rc}: {(o + e)[-800:]}")
        return 0

    def true_saddle(c):      # Newton on the analytic gradient from x0 (the cubic terms move the saddle nowhere: the gradient vanishes AT x0)
        return c["x0"]
    def suitable(c):
        """the method's own precondition: psi has an interior extremum on each of the four edges of the box (the derivative along the edge changes sign)"""
        a, b, cc, d, e, f = c["coef"]
        def grad(R, Z):
            x, y = R - c["x0"][0], Z - c["x0"][1]
            return (2 * a * x + cc * y + 3 * d * x * x + e * y * y, -2 * b * y + cc * x + 2 * e * x * y + 3 * f * y * y)
        p1, p2 = c["p1"], c["p2"]
        L = math.hypot(p2[0] - p1[0], p2[1] - p1[1])
        e1 = ((p2[0] - p1[0]) / L, (p2[1] - p1[1]) / L)
        e2 = (e1[1], -e1[0])
        p3 = (p2[0] + L * e2[0], p2[1] + L * e2[1])
        p4 = (p1[0] + L * e2[0], p1[1] + L * e2[1])
        for q, r_ in ((p1, p2), (p2, p3), (p3, p4), (p4, p1)):
            t = ((r_[0] - q[0]) / L, (r_[1] - q[1]) / L)
            g0, g1 = grad(*q), grad(*r_)
            if (g0[0] * t[0] + g0[1] * t[1]) * (g1[0] * t[0] + g1[1] * t[1]) >= 0:
                return False
        return True
    worst, refused = 0.0, 0
    for c, r in zip(cases, res):
        if "error" in r and not suitable(c):
            refused += 1          # an explicit refusal of a box on whose edges psi has no extremum
            continue
        if "found" not in r:
            chk.fail("saddle-point:not-found", "findSaddlePoint does not return the X-point inside the search box (it raises or does not terminate) for some description of the box",
                     {"case": c, "outcome": r})
            continue
        d = math.hypot(r["found"][0] - c["x0"][0], r["found"][1] - c["x0"][1])
        worst = max(worst, d)
        if d > 1e-6:
            chk.fail("saddle-point:wrong-position", "findSaddlePoint returns a point where grad(psi) does not vanish", {"case": c, "found": r["found"], "distance_from_saddle": d})
    chk.notes["saddle_oracle"] = {"cases": len(cases), "worst_distance": worst, "refused_unsuitable_box": refused}
    return len(cases)


def legs_oracle(chk):
    """findLegs labels the two legs of an X-point 'inner' / 'outer' by the major radius of their STRIKE POINTS: straight-line separatrices (closed-form strike
    points) in a wall with an inclined side, legs swept to the same side (where the order at the wall can be the reverse of the order at the X-point) or one to
    each side, lower and upper X-points"""
    import math
    cases = []
    for flip in (1, -1):
        for (a1, a2, slope, gap) in ((-10.0, -70.0, 0.1, 0.12), (-15.0, -60.0, 0.12, 0.12), (-25.0, -65.0, 0.08, 0.14), (-12.0, -68.0, 0.05, 0.1)):
            cases.append(dict(x0=1.5037, z0=0.0123, w=0.3, a1=a1, a2=a2, flip=flip, slope=slope, gap=gap))
    rc, res, o, e = common.run_impl_json("impl/legs.py", dict(cases=cases), timeout=600)
    if res is None:
        chk.tie_broken("impl/legs.py", f"implementation run failed rc={rc}: {(o + e)[-1000:]}")
        return 0
    n = 0
    stats = dict(order_reversed_between_xpoint_and_wall=0)
    for c, r in zip(cases, res):
        if "error" in r:
            chk.tie_broken("impl/legs.py:case", f"{c}: {r['error']}")
            continue
        n += 1
        flip, zx = c["flip"], c["flip"] * c["z0"]
        def strike(adeg):
            a = math.radians(adeg)
            s = c["gap"] / (math.cos(a) + c["slope"] * math.sin(a))
            return (c["x0"] + s * math.cos(a), zx + flip * s * math.sin(a))
        S = sorted([strike(c["a1"]), strike(c["a2"])])
        if max(abs(p[1] - zx) for p in S) > 0.55:
            chk.tie_broken("oracle:legs", f"configuration {c}: a leg would reach the floor of the wall before its inclined side (generator error)")
            continue
        ends = sorted([tuple(r["inner_end"]), tuple(r["outer_end"])])
        err = max(math.hypot(a[0] - b[0], a[1] - b[1]) for a, b in zip(S, ends))
        if err > 5e-3:
            chk.fail("legs:strike-points", "the legs found by findLegs do not end on the strike points of the (straight-line) separatrix", dict(case=c, found=ends, analytic=S, error=err))
            continue
        if (r["inner_first"][0] < r["outer_first"][0]) != (r["inner_end"][0] < r["outer_end"][0]):
            stats["order_reversed_between_xpoint_and_wall"] += 1
        if not r["inner_end"][0] < r["outer_end"][0]:
            chk.fail("legs:inner-outer-labels", "findLegs labels as 'inner' the leg whose strike point has the LARGER major radius", dict(case=c, inner_strike=r["inner_end"], outer_strike=r["outer_end"],
                     inner_leaves_xpoint_via=r["inner_first"], outer_leaves_xpoint_via=r["outer_first"]))
    if stats["order_reversed_between_xpoint_and_wall"] == 0:
        chk.tie_broken("oracle:legs", "no generated configuration has legs whose order at the wall differs from their order at the X-point (the labelling test is vacuous)")
    chk.notes["legs_oracle"] = dict(cases=n, **stats)
    return n


def run(chk):
    np.seterr(all="ignore")
    tr = translate(chk)
    chk.trust("translate/critical.py (Newton residual/matrix, finite-difference discriminant as expressions; loop structure, thresholds, sort keys, X-point selection as exact-form checks)",
              "hand model theories/Model_Critical.v (computable over Q), tied by the correspondence run: a Python twin of the candidate search that evaluates the TRANSLATED Newton step and "
              "discriminant feeds the same candidate lists to the model (vm_compute) and the result is compared with find_critical's output",
              "CONTRACT: RectBivariateSpline evaluates the interpolant and its partial derivatives; convergence of the Newton iteration from the grid minimum is observed, not proved")
    chk.assume("completeness (every critical point in the searched interior is found) is observed on sampled smooth flux functions with well-separated, non-degenerate critical points; it is not a theorem")
    chk.coq()
    rng = random.Random(chk.seed)
    cases = make_cases(rng, chk.tier)
    # equilibrium-level: single / double null by psinorm_sol, leg labels
    eq_cases = []
    for fam, base, sols in (("udn2", DN, (1.02, 1.1, 1.25)), ("udn", DN, (1.005, 1.2)), ("lsn", SN, (1.2,)), ("cdn", CDN, (1.2,)), ("ldn", DN, (1.2, 1.01))):
        for sgn in (1.0, -1.0):
            for s in sols:
                o = dict(base)
                o.update(psinorm_sol=s)
                eq_cases.append(dict(cfg=tok(f"c19_{fam}", fam, o, sign=sgn), family=fam, sign=sgn, psinorm_sol=s, wall="rect"))
    # an X-point within psinorm_sol but OUTSIDE the wall is not counted
    for fam, base in (("cdn", CDN), ("udn", DN)):
        for sgn in (1.0, -1.0):
            o = dict(base)
            o.update(psinorm_sol=1.2)
            eq_cases.append(dict(cfg=tok(f"c19_{fam}_hf", fam, o, sign=sgn, wall="high_floor"), family=fam, sign=sgn, psinorm_sol=1.2, wall="high_floor"))
    # analytic sheared double nulls with both X-points at the same major radius, at sub-grid positions
    sheared = [dict(k=0.5, sigma=-0.7, Zx=0.3, R0=1.503, Z0=0.007, n=129, rmin=1.2, rmax=1.8, zmin=-0.5, zmax=0.5)]
    for _ in range(5 if chk.tier == "quick" else 40):
        sheared.append(dict(k=rng.choice([0.3, 0.5, 1.0]), sigma=rng.choice([-0.7, -0.4, 0.5]), Zx=round(rng.uniform(0.27, 0.33), 4), R0=round(1.5 + rng.uniform(-0.004, 0.004), 5),
                            Z0=round(rng.uniform(-0.008, 0.008), 5), n=rng.choice([97, 129]), rmin=1.2, rmax=1.8, zmin=-0.5, zmax=0.5))
    rc, res, o, e = common.run_impl_json("impl/critical.py", dict(cases=cases, eq_cases=eq_cases, sheared_cases=sheared), timeout=1500)
    if res is None:
        chk.tie_broken("impl/critical.py", f"implementation run failed rc={rc}: {(o + e)[-1500:]}")
        return
    n = 0
    for c, r in zip(sheared, res.get("sheared", [])):
        if "error" in r:
            chk.fail("find_critical:raised", "find_critical raised on a smooth flux function (sheared double null)", dict(case=c, error=r["error"]))
            continue
        truth = [("O", c["R0"] - c["sigma"] * c["Zx"] / 2, c["Z0"])] + [("X", c["R0"], c["Z0"] + c["Zx"]), ("X", c["R0"], c["Z0"] - c["Zx"])]
        for kind, tr_, tz_ in truth:
            got = r["opoints"] if kind == "O" else r["xpoints"]
            # (three cells: a point is accepted as soon as Br^2 + Bz^2 < xpoint_refine_atol, which for the weaker fields (k = 0.3) already holds at the
            #  grid node next to the critical point -- a position error of a few mm that the requested tolerance allows)
            hits = [p for p in got if math.hypot(p[0] - tr_, p[1] - tz_) < 3 * (c["rmax"] - c["rmin"]) / (c["n"] - 1)]
            n += 1
            if len(hits) != 1:
                chk.fail(f"exactly-once:{kind}-point:returned-{len(hits)}-times", f"an {kind}-point inside the searched interior is not returned exactly once", dict(case=c, point=[tr_, tz_], returned=got))
        if len(r["xpoints"]) != 2 or len(r["opoints"]) != 1:
            chk.fail("exactly-once:count", "find_critical returns a different number of critical points than the flux function has", dict(case=c, opoints=r["opoints"], xpoints=r["xpoints"]))
    stats = dict(pos=0.0, n_o=0, n_x=0, filtered_x=0)
    batches, bmeta = [], []
    for ci, (c, r) in enumerate(zip(cases, res["cases"])):
        tag = f"{c['nr']}x{c['nz']}:blobs={len(c['blobs'])}:sign={c['sign']:+.0f}"
        rp = {k: c[k] for k in ("blobs", "sign", "nr", "nz", "rmin", "rmax", "zmin", "zmax", "atol")}
        if "error" in r:
            chk.fail("find_critical:raised", "find_critical raised on a smooth flux function", dict(rp, error=r["error"]))
            continue
        psi, grad, hess = gauss(c["blobs"], c["sign"])
        dR, dZ = (c["rmax"] - c["rmin"]) / (c["nr"] - 1), (c["zmax"] - c["zmin"]) / (c["nz"] - 1)
        tolp = 0.02 * min(dR, dZ)
        truth = c["truth"]
        got = [(p, "O") for p in r["opoints"]] + [(p, "X") for p in r["xpoints"]]
        rmid, zmid = 0.5 * (c["rmin"] + c["rmax"]), 0.5 * (c["zmin"] + c["zmax"])
        t_os = sorted([t for t in truth if t[2] == "O"], key=lambda t: (t[0] - rmid) ** 2 + (t[1] - zmid) ** 2)
        po = t_os[0]
        psi_o = float(psi(po[0], po[1]))
        # ---- every true critical point returned exactly once, rightly classified; nothing else returned
        for t in truth:
            near = [(p, k) for p, k in got if math.hypot(p[0] - t[0], p[1] - t[1]) < 3 * max(dR, dZ)]
            n += 1
            stats["n_o" if t[2] == "O" else "n_x"] += 1
            if t[2] == "X":
                # the monotonicity filter: psi along the straight line from the primary O-point
                rl, zl = np.linspace(po[0], t[0], 400), np.linspace(po[1], t[1], 400)
                pl = psi(rl, zl) * (-1.0 if psi(t[0], t[1]) < psi_o else 1.0)
                drop = (pl.max() - pl[-1]) / (pl.max() - pl[0])
                amin = int(np.argmin(pl))
                far = math.hypot(rl[amin] - po[0], zl[amin] - po[1])
                if drop > 0.01 or far > 0.03:
                    stats["filtered_x"] += 1
                    if near:
                        chk.fail("xpoint:not-filtered", "an X-point from which psi is clearly not monotonic towards the primary O-point is returned", dict(rp, xpoint=t[:2], drop=float(drop)))
                    continue
                if drop > 1e-4 or far > 0.005:
                    continue       # borderline: either outcome is acceptable
            if len(near) == 0:
                chk.fail(f"missed:{t[2]}-point", f"a non-degenerate {t[2]}-point inside the searched interior is not returned", dict(rp, point=t[:2], returned=[p for p, _ in got]))
            elif len(near) > 1:
                chk.fail(f"duplicate:{t[2]}-point", f"an {t[2]}-point is returned more than once", dict(rp, point=t[:2], returned=[p for p, _ in near]))
            else:
                p, kind = near[0]
                e = math.hypot(p[0] - t[0], p[1] - t[1])
                stats["pos"] = max(stats["pos"], e / min(dR, dZ))
                if kind != t[2]:
                    chk.fail(f"misclassified:{t[2]}-as-{kind}", "a critical point is classified against the sign of its Hessian determinant", dict(rp, point=t[:2], hessian=[float(v) for v in hess(t[0], t[1])]))
                if e > tolp:
                    chk.fail("position", "a returned critical point is not where grad(psi) vanishes (to 2% of a cell)", dict(rp, point=t[:2], returned=p[:2], error_in_cells=e / min(dR, dZ)))
                gR, gZ = (float(v) for v in grad(p[0], p[1]))
                if math.hypot(gR, gZ) > 3 * math.sqrt(c["atol"]) * p[0] + 2e-3 * np.max(np.abs([hess(t[0], t[1])])) * min(dR, dZ):
                    chk.fail("gradient", "grad(psi) does not vanish to the requested tolerance at a returned point", dict(rp, returned=p[:2], grad=[gR, gZ]))
                if abs(p[2] - float(psi(p[0], p[1]))) > 1e-4 * abs(psi_o):
                    chk.fail("psi-value", "the psi reported for a critical point is not psi at that point", dict(rp, returned=p))
        for p, k in got:
            if not any(math.hypot(p[0] - t[0], p[1] - t[1]) < 3 * max(dR, dZ) for t in truth):
                chk.fail(f"spurious:{k}-point", "a point is returned where the flux function has no critical point", dict(rp, returned=p))
        # ---- ordering
        if r["opoints"]:
            n += 1
            if math.hypot(r["opoints"][0][0] - po[0], r["opoints"][0][1] - po[1]) > 3 * max(dR, dZ):
                chk.fail("primary-opoint", "the primary O-point is not the one nearest the centre of the domain", dict(rp, returned=r["opoints"][0][:2], nearest=po[:2]))
            ks = [(p[0] - rmid) ** 2 + (p[1] - zmid) ** 2 for p in r["opoints"]]
            if any(b < a for a, b in zip(ks, ks[1:])):
                chk.fail("opoint-order", "O-points are not ordered by distance from the centre of the domain", dict(rp, returned=r["opoints"]))
            pa = r["opoints"][0][2]
            ks = [abs(p[2] - pa) for p in r["xpoints"]]
            n += len(ks)
            if any(b < a for a, b in zip(ks, ks[1:])):
                chk.fail("xpoint-order", "X-points are not ordered by |psi - psi_axis|", dict(rp, returned=r["xpoints"], psi_axis=pa))
        # ---- model run: twin search + Coq post-processing
        if tr is not None:
            os_, xs, f, (rm, zm) = twin_search(tr, c)
            if os_:
                po_t = min(os_, key=lambda p: (p[0] - rm) ** 2 + (p[1] - zm) ** 2)
                samples = []
                for xp in xs:
                    rl, zl = np.linspace(po_t[0], xp[0], num=50), np.linspace(po_t[1], xp[1], num=50)
                    samples.append((f(rl, zl, grid=False).tolist(), ((rl - po_t[0]) ** 2 + (zl - po_t[1]) ** 2).tolist()))
                batches.append((os_, xs, rm, zm, samples))
                bmeta.append((ci, tag, rp, r, os_, xs))
    if tr is not None and batches:
        out = coq_post(chk, batches)
        if out is not None:
            bad = 0
            for (ci, tag, rp, r, os_, xs), (oo, xo) in zip(bmeta, out):
                mo = [os_[k] for k in oo if k < len(os_)]
                mx = [xs[k] for k in xo if k < len(xs)]
                same = len(mo) == len(r["opoints"]) and len(mx) == len(r["xpoints"]) and \
                    all(max(abs(a - b) for a, b in zip(p, q2)) < 1e-9 for p, q2 in zip(mo, r["opoints"])) and all(max(abs(a - b) for a, b in zip(p, q2)) < 1e-9 for p, q2 in zip(mx, r["xpoints"]))
                n += len(mo) + len(mx)
                if not same:
                    bad += 1
                    chk.tie_broken("model:find_critical", f"case {tag}: model (twin search + Coq post-processing) gives O={mo} X={mx}; implementation O={r['opoints']} X={r['xpoints']}")
            chk.notes["model_correspondence"] = {"cases": len(batches), "disagreements": bad}
    # ---- equilibrium level
    dist = {}
    for c, r in zip(eq_cases, res["eqs"]):
        fam, sgn, s = c["family"], c["sign"], c["psinorm_sol"]
        g, h = crit.analytic_funcs(fam, sgn)
        import analytic
        cps = crit.find_all(g, h, (1.2, 1.8, -0.5, 0.5), n=12)
        ax = min((p for p in cps if p[2] == "O"), key=lambda p: abs(p[1]))
        pa = float(analytic.psi(fam, ax[0], ax[1], sgn))
        xs = sorted(((float(analytic.psi(fam, p[0], p[1], sgn)), p) for p in cps if p[2] == "X"), key=lambda v: abs(v[0] - pa))
        pn = [(v - pa) / (xs[0][0] - pa) for v, _ in xs]
        margin = min(abs(v - s) for v in pn)
        zfloor = -0.27 if c["wall"] == "high_floor" else -0.5
        inside = [zfloor < p[1] < 0.5 and 1.2 < p[0] < 1.8 for _, p in xs]
        expect = sum(1 for v, ins in zip(pn, inside) if v < s and ins)
        key = f"{fam}:psinorm_sol={s}:{c['wall']}"
        dist[key] = expect
        n += 1
        if margin < 2e-3:
            continue
        rp = dict(family=fam, sign=sgn, psinorm_sol=s, wall=c["wall"], xpoint_psinorm=pn, xpoint_inside_wall=inside)
        if "error" in r:
            if 1 <= expect <= 2:
                chk.fail(f"null-count:{expect}:refused", "an equilibrium with one or two X-points inside the wall and within psinorm_sol is refused", dict(rp, error=r["error"]))
            continue
        if r["n_xpoints"] != expect:
            chk.fail(f"null-count:{expect}:got-{r['n_xpoints']}", "the number of X-points kept (single / double null) is not the number inside the wall with psinorm < psinorm_sol", dict(rp, kept=r["x_points"]))
        want_regions = 3 if expect == 1 else 6
        if len(r["regions"]) != want_regions:
            chk.fail(f"topology:{expect}", "the regions created do not correspond to the number of X-points kept", dict(rp, regions=r["regions"]))
        for side in ("lower", "upper"):
            a, b = r["legs"].get(f"inner_{side}_divertor"), r["legs"].get(f"outer_{side}_divertor")
            if a and b:
                n += 1
                if not a[0] < b[0]:
                    chk.fail("leg-labels", "the leg labelled inner has its strike point at larger major radius than the one labelled outer", dict(rp, side=side, inner_strike=a, outer_strike=b))
        if c["wall"] == "rect" and abs(r["psi_sep"][0] - xs[0][0]) > 1e-5 * abs(pa):
            chk.fail("primary-xpoint", "the primary X-point (psi_sep[0]) is not the X-point closest in psi to the magnetic axis", dict(rp, psi_sep=r["psi_sep"], expected=xs[0][0]))
    n += legs_oracle(chk)
    n += saddle_oracle(chk)
    chk.count(evaluations=n, distinct=n)
    chk.cov["rule"] = ("random sums of 2-4 Gaussians (both signs of psi, 4 input resolutions, critical points at arbitrary sub-grid positions, well-separated and non-degenerate, clearly inside the "
                       "searched interior): every true critical point (independent multi-start Newton on the analytic function) returned exactly once, classification, position, gradient, psi value, "
                       "nothing spurious, primary O-point, both orderings, the monotonicity filter; model correspondence; TokamakEquilibrium objects of 5 families x both signs x psinorm_sol "
                       "thresholds either side of the secondary X-point: number of X-points kept, regions, primary X-point, inner/outer leg labels")
    chk.notes["critical_cases"] = {"count": len(cases), "true_o_points": stats["n_o"], "true_x_points": stats["n_x"], "x_points_expected_filtered": stats["filtered_x"],
                                   "worst_position_error_cells": float(f"{stats['pos']:.3g}"), "resolutions": sorted({f"{c['nr']}x{c['nz']}" for c in cases})}
    chk.notes["eq_cases"] = {"count": len(eq_cases), "expected_xpoints": dist}
    chk.sample(chk.notes["critical_cases"])
