"""C07 -- curvature outputs are the contravariant components of curl(b/B)."""
import numpy as np
from scipy.interpolate import InterpolatedUnivariateSpline, RectBivariateSpline

import common
import corpus
from props import c18

LEVEL = "proof"


def translate(chk):
    return c18.translate(chk)


def translate_circular(chk):
    import os
    import circular as trc
    import pyir
    try:
        text, f = trc.emit(common.REPO)
    except (pyir.TranslationError, SyntaxError, OSError) as e:
        chk.tie_broken("translate/circular.py", f"exact-form check refused circular.py: {e}")
        return None
    common.write_if_changed(os.path.join(common.GEN, "Gen_Circular.v"), text)
    return f


def circular_oracle(chk, f):
    """theories/Model_Circular.v with the exponent ranges read from the source, evaluated here in Python, against the real q / dqdr / dpsidr_r /
    d2psidr2_r; and the theorems' statements on the implementation: dqdr and d2psidr2_r against Richardson differences of q and dpsidr_r"""
    import random
    rng = random.Random(chk.seed + 77)
    cases = [dict(coefs=[round(rng.uniform(1.0, 3.0), 3)] + [round(rng.uniform(0.2, 3.0), 3) for _ in range(k)], r=[rng.uniform(0.05, 0.45) for _ in range(6)])
             for k in (0, 1, 1, 1)]      # (the class supports one or two coefficients)
    rc, res, o, e = common.run_impl_json("impl/circular.py", dict(cases=cases), timeout=300)
    if res is None:
        chk.tie_broken("impl/circular.py", f"rc={rc}: {(o + e)[-800:]}")
        return 0
    n = 0
    for c, d in zip(cases, res):
        if "error" in d:
            chk.tie_broken("impl/circular.py:case", d["error"])
            continue
        cs, R0, B0 = c["coefs"], d["R0"], d["B0"]
        q = lambda x: sum(a * x ** (f["q_start"] + f["q_step"] * k) for k, a in enumerate(cs))
        dq = lambda x: 0.0 if len(cs) == 1 else sum(a * (f["dq_start"] + f["dq_step"] * k) * x ** (f["dq_start"] + f["dq_step"] * k - 1) for k, a in enumerate(cs[f["dq_skip"]:]))
        dps = lambda x: B0 * x / (np.sqrt(1 - x**2 / R0**2) * q(x))
        rich = lambda fun, x, h=1e-4: (4 * (fun(x + h / 2) - fun(x - h / 2)) / h - (fun(x + h) - fun(x - h)) / (2 * h)) / 3
        for i, x in enumerate(c["r"]):
            n += 1
            model = dict(q=q(x), dqdr=dq(x), dpsidr_r=dps(x),
                         d2psidr2_r=B0 / (np.sqrt(1 - x**2 / R0**2) * q(x)) + B0 * x**2 / (R0**2 * (1 - x**2 / R0**2) ** 1.5 * q(x)) - B0 * x * dq(x) / (np.sqrt(1 - x**2 / R0**2) * q(x) ** 2))
            for k_, v in model.items():
                if abs(d[k_][i] - v) > 1e-12 * max(1.0, abs(v)):
                    chk.tie_broken("model:circular", f"Model_Circular ({k_}) and the implementation differ for q_coefficients={cs} at r={x}: {d[k_][i]} vs {v}")
            # the property's side: the functions used as derivatives ARE derivatives
            if abs(d["dqdr"][i] - rich(q, x)) > 1e-7 * max(1.0, abs(rich(q, x))):
                chk.fail("circular:dqdr-not-derivative-of-q", "CircularEquilibrium.dqdr is not the derivative of q", {"q_coefficients": cs, "r": x, "dqdr": d["dqdr"][i], "finite_difference": rich(q, x)})
            if abs(d["d2psidr2_r"][i] - rich(dps, x)) > 1e-7 * max(1.0, abs(rich(dps, x))):
                chk.fail("circular:d2psidr2-not-derivative", "CircularEquilibrium.d2psidr2_r is not the derivative of dpsidr_r", {"q_coefficients": cs, "r": x, "d2psidr2": d["d2psidr2_r"][i], "finite_difference": rich(dps, x)})
    return n


class Field:
    """independent evaluation of B/B^2 and its curl from the inputs of a corpus grid (own splines, Richardson differences)"""

    def __init__(self, inputs, eff=None):
        psi2d, p1, f1 = (inputs["psi2d"], np.asarray(inputs["psi1d"]), np.asarray(inputs["fpol1d"])) if eff is None else (eff[0], np.asarray(eff[1]), np.asarray(eff[2]))
        self.spl = RectBivariateSpline(inputs["r1d"], inputs["z1d"], psi2d)
        self.const = len(f1) == 0
        if not self.const:
            o = np.argsort(p1)
            self.f = InterpolatedUnivariateSpline(p1[o], f1[o], ext=3)

    def B(self, R, Z):
        pR, pZ = self.spl(R, Z, dx=1, grid=False), self.spl(R, Z, dy=1, grid=False)
        bz = (0.0 * R if self.const else self.f(self.spl(R, Z, grid=False)) / R)
        return pZ / R, -pR / R, bz

    def A(self, R, Z):
        bR, bZ, bt = self.B(R, Z)
        b2 = bR**2 + bZ**2 + bt**2
        return bR / b2, bZ / b2, bt / b2

    def curl(self, R, Z, h=2e-4):
        def d(fun, comp, wrt):
            def f(x):
                return fun(x, Z)[comp] if wrt == "R" else fun(R, x)[comp]
            x = R if wrt == "R" else Z
            d1 = (f(x + h) - f(x - h)) / (2 * h)
            d2 = (f(x + h / 2) - f(x - h / 2)) / h
            return (4 * d2 - d1) / 3
        RA = lambda r, z: tuple(r * a for a in self.A(r, z))
        cR = -d(self.A, 2, "Z")
        cZ = d(RA, 2, "R") / R
        cT = d(self.A, 0, "Z") - d(self.A, 1, "R")
        return cR, cZ, cT


class CircField(Field):
    """the same for the analytic circular equilibrium, from ITS definition only: psi'(r) = B0 r / (sqrt(1 - r^2/R0^2) q(r)), q(r) = sum a_k r^(2k),
    Bt = B0 R0 / R (none of the implementation's derivative helpers is used)"""

    def __init__(self, uo):
        import ast
        qc = uo["q_coefficients"]
        qc = ast.literal_eval(qc) if isinstance(qc, str) else qc
        self.R0, self.B0, self.qc = float(uo["R0"]), float(uo["B0"]), [float(x) for x in qc]
        self.const = False

    def _dpsidr(self, r):
        q = sum(c * r ** (2 * k) for k, c in enumerate(self.qc))
        return self.B0 * r / (np.sqrt(1.0 - r**2 / self.R0**2) * q)

    def spl(self, R, Z, dx=0, dy=0, grid=False):
        r = np.hypot(R - self.R0, Z)
        if (dx, dy) == (1, 0):
            return self._dpsidr(r) * (R - self.R0) / r
        if (dx, dy) == (0, 1):
            return self._dpsidr(r) * Z / r
        raise NotImplementedError

    def B(self, R, Z):
        pR, pZ = self.spl(R, Z, dx=1), self.spl(R, Z, dy=1)
        return pZ / R, -pR / R, self.B0 * self.R0 / R


def run(chk):
    tr18 = c18.translate(chk)
    fc = translate_circular(chk)
    chk.trust("translate/fields.py (closures of calc_curvature and the helper chain)",
              "CONTRACT: the interpolant's derivative evaluators are partial derivatives of one psi (as C18)",
              "grid oracle: curl(B/B^2) recomputed from the grid's inputs with independent splines and Richardson differences; grad(y) from the grid's own displacements (duality) on non-orthogonal grids")
    chk.assume("agreement of the two curvature_type formulations is observed at one resolution (discretisation error ~ 10-50% near the X-point on the coarse corpus grids)")
    chk.coq()
    # the ingredients: the theorems take the helper chain (second derivatives of psi, dB*/d*, fpolprime) as the derivatives of their primitives --
    # that contract is monitored here too (both interpolation methods, dR != dZ), so that a wrong ingredient is reported with a concrete input
    c18.field_oracle(c18.Prefixed(chk, "ingredient:"), tr18)
    ncirc = circular_oracle(chk, fc) if fc else 0
    # a circular equilibrium whose safety factor varies with radius (q = 1.5 + 2 r^2): the second derivatives of psi involve dq/dr
    extra = [dict(name="circ_q2", kind="circular", options=dict(number_of_processors=1, nx_core=4, ny_total=8, q_coefficients=[1.5, 2.0]), must_build=True)]
    grids = {g.name: g for g in corpus.get(tier=chk.tier, extra_cfgs=extra) if g.ok}
    n = 0
    worst = {}
    for name, g in grids.items():
        circular = g.cfg["kind"] == "circular"
        if not circular and (g.cfg["kind"] != "tokamak" or g.d["mesh"]["user_options"].get("psi_interpolation_method", "spline") != "spline"):
            continue
        ctype = g.d["mesh"]["user_options"].get("curvature_type")
        if ctype != "curl(b/B)":
            continue
        orth = bool(g.d["mesh"]["user_options"].get("orthogonal", True))
        from props import c03
        F = CircField(g.d["eq"]["user_options"]) if circular else Field(g.d["inputs"], c03.effective_inputs(g))
        w = dict(x=0.0, y=0.0, z=0.0, bxcv=0.0)
        for rid, r in g.d["regions"].items():
            A = r["arrays"]
            bps = r["bpsign"]
            tag = f"{'orth' if orth else 'nonorth'}:bpsign={int(bps):+d}"
            for loc in ("centre", "ylow"):
                if loc not in A["curl_bOverB_y"]:
                    continue
                R, Z = A["Rxy"][loc], A["Zxy"][loc]
                cR, cZ, cT = F.curl(R, Z)
                pR, pZ = F.spl(R, Z, dx=1, grid=False), F.spl(R, Z, dy=1, grid=False)
                bR, bZ, bt = F.B(R, Z)
                hy, Bp = A["hy"][loc], A["Bpxy"][loc]
                cx = cR * pR + cZ * pZ
                if orth:
                    # grad y = yhat/hy, yhat = unit vector along Bp, oriented along increasing y (sign from the grid's own displacement)
                    if loc == "centre":
                        dRy, dZy = A["Rxy"]["ylow"][:, 1:] - A["Rxy"]["ylow"][:, :-1], A["Zxy"]["ylow"][:, 1:] - A["Zxy"]["ylow"][:, :-1]
                    else:
                        dRy, dZy = np.gradient(R, axis=1), np.gradient(Z, axis=1)
                    sgn = np.sign(bR * dRy + bZ * dZy)
                    modbp = np.hypot(bR, bZ)
                    gyR, gyZ = sgn * bR / modbp / hy, sgn * bZ / modbp / hy
                    tol_y = 1e-4
                else:
                    if loc != "centre":
                        continue
                    # duality: grad y . e_x = 0, grad y . e_y = 1 with the actual displacements per unit dx, dy
                    dx, dy = A["dx"]["centre"], A["dy"]["centre"]
                    exR, exZ = (A["Rxy"]["xlow"][1:, :] - A["Rxy"]["xlow"][:-1, :]) / dx, (A["Zxy"]["xlow"][1:, :] - A["Zxy"]["xlow"][:-1, :]) / dx
                    eyR, eyZ = (A["Rxy"]["ylow"][:, 1:] - A["Rxy"]["ylow"][:, :-1]) / dy, (A["Zxy"]["ylow"][:, 1:] - A["Zxy"]["ylow"][:, :-1]) / dy
                    det = exR * eyZ - exZ * eyR
                    gyR, gyZ = -exZ / det, exR / det
                    tol_y = 0.25
                cy = cR * gyR + cZ * gyZ
                cz = cT / R - A["Btxy"][loc] * hy / (Bp * R) * cy
                ok = np.ones_like(R, dtype=bool)
                ri = r["radialIndex"]
                if loc == "centre":
                    if r["xPointsAtStart"][ri] is not None or r["xPointsAtStart"][ri + 1] is not None:
                        ok[:, 0] = False
                    if r["xPointsAtEnd"][ri] is not None or r["xPointsAtEnd"][ri + 1] is not None:
                        ok[:, -1] = False
                else:
                    ok[:, 0] = ok[:, -1] = False
                # extrapolate_profiles puts a kink into fpol(psi) at the last input point: the profile spline's third derivative jumps strongly at the knots
                # around it and the Richardson differences of the oracle lose accuracy there
                base_tol = 2e-3 if (not circular and g.d["eq"]["user_options"].get("extrapolate_profiles")) else 1e-4
                for comp, ref, tol in (("x", cx, base_tol), ("y", cy, max(tol_y, base_tol)), ("z", cz, max(tol_y, base_tol))):
                    got = A[f"curl_bOverB_{comp}"][loc]
                    sc = np.max(np.abs(ref[ok])) if ok.any() else 1.0
                    err = np.abs(got - ref) / max(sc, 1e-300)
                    n += int(ok.sum())
                    if ok.any():
                        w[comp] = max(w[comp], float(err[ok].max()))
                        if err[ok].max() > tol:
                            p = np.unravel_index(np.argmax(np.where(ok, err, 0)), err.shape)
                            chk.fail(f"curl_bOverB_{comp}:{tag}", f"curl_bOverB_{comp} is not curl(b/B).grad({comp}) of the equilibrium field ({tag})",
                                     {"grid": name, "region": r["name"], "loc": loc, "index": [int(p[0]), int(p[1])], "got": float(got[p]), "independent": float(ref[p])})
                    bx = A[f"bxcv{comp}"][loc]
                    e2 = np.max(np.abs(bx - A["Bxy"][loc] / 2.0 * got))
                    w["bxcv"] = max(w["bxcv"], float(e2))
                    if e2 > 1e-12 * max(1.0, np.max(np.abs(bx))):
                        chk.fail(f"bxcv{comp}", f"bxcv{comp} is not Bxy/2 * curl_bOverB_{comp}", {"grid": name, "region": r["name"], "loc": loc})
        worst[name] = {k: float(f"{v:.3g}") for k, v in w.items()}
    # ---- the x-y-derivative formulation at the y-faces where two regions join (first y-face row of a region with a lower neighbour): its stencils reach into
    # the neighbouring region there (hy at the corners, DDX(...).ylow); compared with the independent curl(b/B).grad(z) at 30 % of the region's largest value
    # (the property: 'to the discretisation error of the grid'; at the corpus resolution that error is 14 % on these rows, X-point columns left out; a
    #  stencil that reads the wrong end of the neighbouring region gives 60 %)
    for name, g in grids.items():
        if g.cfg["kind"] != "tokamak" or g.d["mesh"]["user_options"].get("curvature_type") != "curl(b/B) with x-y derivatives":
            continue
        if g.d["mesh"]["user_options"].get("psi_interpolation_method", "spline") != "spline" or not g.d["mesh"]["user_options"].get("orthogonal", True):
            continue
        from props import c03
        F = Field(g.d["inputs"], c03.effective_inputs(g))
        wj = 0.0
        for rid, r in g.d["regions"].items():
            if r["connections"]["lower"] is None:
                continue
            A = r["arrays"]
            R, Z = A["Rxy"]["ylow"][:, 0], A["Zxy"]["ylow"][:, 0]
            cR, cZ, cT = F.curl(R, Z)
            bR, bZ, bt = F.B(R, Z)
            hy, Bp = A["hy"]["ylow"][:, 0], A["Bpxy"]["ylow"][:, 0]
            dRy, dZy = A["Rxy"]["centre"][:, 0] - R, A["Zxy"]["centre"][:, 0] - Z
            sgn = np.sign(bR * dRy + bZ * dZy)
            modbp = np.hypot(bR, bZ)
            cy = cR * sgn * bR / modbp / hy + cZ * sgn * bZ / modbp / hy
            cz = cT / R - A["Btxy"]["ylow"][:, 0] * hy / (Bp * R) * cy
            got = A["curl_bOverB_z"]["ylow"][:, 0]
            ri = r["radialIndex"]
            ok = np.ones_like(R, dtype=bool)
            if r["xPointsAtStart"][ri] is not None:
                ok[0] = False
            if r["xPointsAtStart"][ri + 1] is not None:
                ok[-1] = False
            sc = float(np.max(np.abs(A["curl_bOverB_z"]["centre"])))
            if ok.any() and sc > 0:
                e = float(np.max(np.abs(got - cz)[ok]) / sc)
                wj = max(wj, e)
                n += int(ok.sum())
                if e > 0.3:
                    k = int(np.argmax(np.where(ok, np.abs(got - cz), 0)))
                    chk.fail("curl_bOverB_z:xy-form:y-face-at-region-join", "the x-y-derivative formulation of curl_bOverB_z at the first y-face row of a region (where its stencils reach into the "
                             "region below) is not curl(b/B).grad(z)", {"grid": name, "region": r["name"], "x_index": k, "got": float(got[k]), "independent": float(cz[k]), "relative_to_region_max": e})
        chk.notes.setdefault("xy_form_at_region_joins", {})[name] = float(f"{wj:.3g}")
    # ---- the two curvature_type formulations on orthogonal grids
    for a, b in (("lsn", "lsn_xy"), ("lsn_neg", "lsn_neg_xy")):
        if a in grids and b in grids:
            ga, gb = grids[a], grids[b]
            for comp in ("x", "y", "z"):
                for rid in ga.d["regions"]:
                    ra, rb = ga.d["regions"][rid], gb.d["regions"][rid]
                    va, vb = ra["arrays"][f"curl_bOverB_{comp}"]["centre"], rb["arrays"][f"curl_bOverB_{comp}"]["centre"]
                    inner = (slice(1, -1), slice(1, -1))
                    sc = np.max(np.abs(va[inner])) if va[inner].size else 0
                    if sc == 0:
                        continue
                    corr = float(np.sum(va[inner] * vb[inner]) / (np.sqrt(np.sum(va[inner] ** 2) * np.sum(vb[inner] ** 2)) + 1e-300))
                    n += va[inner].size
                    chk.notes.setdefault("xy_vs_RZ_correlation", {})[f"{a}:{comp}:{ra['name']}"] = float(f"{corr:.3g}")
                    if corr < 0.5:
                        chk.fail(f"curvature_type-disagree:{comp}:bpsign={int(ra['bpsign']):+d}", f"the x-y-derivative formulation of curl_bOverB_{comp} does not agree with the R-Z formulation on an orthogonal grid (sign/scale)",
                                 {"grids": [a, b], "region": ra["name"], "normalised_correlation": corr, "RZ_sample": va[inner].ravel()[:3].tolist(), "xy_sample": vb[inner].ravel()[:3].tolist()})
    n += ncirc
    chk.count(evaluations=n, distinct=n)
    chk.cov["rule"] = "every centre / ylow point of every region of the spline-interpolated tokamak corpus grids (orthogonal and non-orthogonal, both signs of psi, non-constant fpol); the two curvature_type formulations on lsn / lsn_neg"
    chk.notes["worst_relative_error"] = worst
    chk.sample({"worst": worst})
