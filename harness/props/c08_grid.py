"""C08 on real grid files: the integers written in the file, read with BOUT++'s documented meaning, against the corner
coordinates of the same file; y-coord / theta / chi."""
import numpy as np

import corpus
from props.c08 import bout_up, ordered, INTS


def run(chk):
    names = None
    # a grid regridded by redistributePoints and written WITHOUT an explicit calculateRZ() in between (redistributePoints itself must leave the points on the edges
    # shared between regions coincident), and an upper disconnected double null whose inboard and outboard SOL limits differ
    extra = [corpus.tok("lsn_nonorth_regrid_direct", "lsn", corpus.nonorth(corpus.SN), regrid=[dict(geometry_before=True, settings=corpus.RG1, calculateRZ=False)], must_build=True),
             # a periodic core-only grid with the guard-cell option set: no targets, so no guard cells; theta still runs from 0 to 2 pi
             dict(name="circ_g2", kind="circular", options=dict(number_of_processors=1, nx_core=4, ny_total=8, y_boundary_guards=2), must_build=True)]
    grids = corpus.get(tier=chk.tier, extra_cfgs=extra)
    n = 0
    for g in grids:
        if not g.ok:
            continue
        F = g.d["file"]
        if "jyseps1_1" not in F:
            continue
        t = {k: int(F[k]) for k in INTS}
        nx, ny, myg = int(F["nx"]), int(F["ny"]), int(F["y_boundary_guards"])
        where = {"grid": g.name, "integers": t, "ny": ny, "y_boundary_guards": myg}
        dn = t["jyseps2_1"] != t["jyseps1_2"]
        kind = g.cfg.get("family", g.cfg["kind"])
        tag = f"{kind}" + (":start_at_upper_outer" if g.cfg.get("options", {}).get("start_at_upper_outer") else "")
        circ = g.cfg["kind"] == "circular"
        mygi = 0 if circ else myg       # guard rows actually present in the arrays (a grid without targets has none)
        jg = (lambda j: j + mygi if (not dn or j < t["ny_inner"]) else j + 3 * mygi)
        n += 1
        if not circ and not ordered(t, ny):
            topo = "sn" if not dn else "dn"
            chk.fail(f"ordering:{topo}", f"topology integers in the grid file are not ordered as BOUT++ requires: {t}", where)
        # ---- corner adjacency
        LL = (F["Rxy_corners"], F["Zxy_corners"])
        LR = (F["Rxy_lower_right_corners"], F["Zxy_lower_right_corners"])
        UL = (F["Rxy_upper_left_corners"], F["Zxy_upper_left_corners"])
        UR = (F["Rxy_upper_right_corners"], F["Zxy_upper_right_corners"])
        bad = []
        if not circ:
            for x in range(nx):
                for j in range(ny):
                    up = bout_up(t, ny, x, j)
                    if up is None or not (0 <= up < ny):
                        continue
                    a, b = jg(j), jg(up)
                    d = max(abs(UL[0][x, a] - LL[0][x, b]), abs(UL[1][x, a] - LL[1][x, b]), abs(UR[0][x, a] - LR[0][x, b]), abs(UR[1][x, a] - LR[1][x, b]))
                    if not d < 1e-8:
                        bad.append(dict(x=x, j=j, integers_say_up=up, corner_mismatch=float(d)))
            if bad:
                chk.fail(f"file-adjacency:{tag}", "cells that are y-neighbours according to the written integers do not share their corner coordinates in the same file", dict(where, mismatches=bad[:4], n_mismatches=len(bad)))
        # ---- y-coord, theta, chi
        dy = F["dy"]
        yc = F["y-coord"]
        nyg = yc.shape[1]
        if not np.allclose(yc, np.arange(nyg)[None, :] * dy[0, 0], rtol=0, atol=1e-12) or not np.allclose(dy, dy[0, 0], rtol=0, atol=0):
            chk.fail("y-coord", "y-coord is not j*dy with uniform dy", where)
        core = [j for j in range(ny) if (t["jyseps1_1"] < j <= (t["jyseps2_1"] if dn else t["jyseps2_2"])) or (dn and t["jyseps1_2"] < j <= t["jyseps2_2"])]
        if circ and F["theta"].shape[1] != ny:
            continue        # (a circular grid with targets -- limiter -- is not part of the corpus)
        if core and (circ or ordered(t, ny)):
            th, thl = F["theta"], F["theta_ylow"]
            d0 = dy[0, 0]
            errs = [abs(thl[0, jg(core[0])])]
            errs += [abs(th[0, jg(core[k])] - (k + 0.5) * d0) for k in range(len(core))]
            errs.append(abs(th[0, jg(core[-1])] + 0.5 * d0 - 2 * np.pi))
            if max(errs) > 1e-10 or np.abs(th - th[0:1, :]).max() > 0:
                chk.fail(f"theta:{tag}", "theta is not 0 half a cell before the first core cell, increasing by dy round the core to 2*pi", dict(where, max_err=float(max(errs))))
            if circ:
                continue
            chi = F["chi"]
            xclosed = min(t["ixseps1"], t["ixseps2"]) if dn else t["ixseps1"]
            expect_finite = np.zeros_like(chi, dtype=bool)
            for j in core:
                expect_finite[:xclosed, jg(j)] = True
            got_finite = np.isfinite(chi)
            if not np.array_equal(got_finite, expect_finite):
                wrong = np.argwhere(got_finite != expect_finite)
                chk.fail("chi-nan-mask" + (":guards>0" if myg > 0 else ":guards=0"),
                         "chi is not NaN exactly on the cells outside the closed-field-line core", dict(where, n_wrong=int(len(wrong)), first_wrong_xy=wrong[:4].tolist(),
                                                                                                       finite_but_open=int((got_finite & ~expect_finite).sum()), nan_but_core=int((~got_finite & expect_finite).sum())))
            else:
                # chi = 2 pi zShift / ShiftAngle goes monotonically from 0 (y-face below the first core cell) towards 2 pi round the core, at all three
                # locations (chi_xlow uses the x-face ShiftAngle: the integral once round ALL regions of the periodic y-group)
                for nm in ("chi", "chi_xlow", "chi_ylow"):
                    if nm not in F:
                        continue
                    v = np.array([[F[nm][ix, jg(j)] for j in core] for ix in range(xclosed)])
                    if not np.all(np.isfinite(v)):
                        continue
                    sgn = np.sign(np.nanmean(v)) or 1.0
                    a = sgn * v
                    lim = 2 * np.pi * (1 + 1e-9)
                    bad = (a.min() < -1e-9) or (a.max() > lim) or (a.shape[1] > 1 and np.diff(a, axis=1).min() <= 0)
                    if nm == "chi_ylow" and np.abs(v[:, 0]).max() > 1e-8:
                        bad = True
                    if bad:
                        chk.fail(f"chi-range:{nm}", f"{nm} does not run monotonically from 0 to 2*pi once round the closed flux surfaces",
                                 dict(where, min=float(a.min()), max=float(a.max()), first=float(v[0, 0]), last=float(v[0, -1])))
    return n
