"""C02 -- metric tensor and Jacobian."""
import json
import math
import os

import common
from common import REPO, GEN, fhex

import metric as tr
import pyir

LEVEL = "proof"
NAMES = ["g11", "g22", "g33", "g12", "g13", "g23", "J", "g_11", "g_22", "g_33", "g_12", "g_13", "g_23"]


def translate(chk):
    try:
        text, out, info, groups = tr.emit(REPO, GEN)
    except (pyir.TranslationError, SyntaxError, OSError) as e:
        chk.tie_broken("translate/metric.py", f"translator refused mesh.py: {e}")
        return None
    common.write_if_changed(os.path.join(GEN, "Gen_Metric.v"), text)
    chk.notes["translator_ignored_statements"] = sorted(set(info["ignored"]))[:40]
    return out


def close(a, b, scale=1.0, tol=1e-9):
    return abs(a - b) <= tol * max(scale, abs(a), abs(b), 1e-300)


def oracle(chk, recs):
    """Evaluate the property's defining relations on the implementation's own outputs."""
    n = 0
    for rec in recs:
        I, Oo = rec["in"], rec["out"]
        br = "orth" if rec["orthogonal"] else "nonorth"
        bps = rec["bpsign"]
        tag = f"{br}:bpsign={int(bps):+d}"
        for p in range(len(I["Rxy"])):
            g = {k: Oo[k][p] for k in NAMES}
            R, Bp, hy, Bt = I["Rxy"][p], I["Bpxy"][p], I["hy"][p], I["Btxy"][p]
            up = [[g["g11"], g["g12"], g["g13"]], [g["g12"], g["g22"], g["g23"]], [g["g13"], g["g23"], g["g33"]]]
            dn = [[g["g_11"], g["g_12"], g["g_13"]], [g["g_12"], g["g_22"], g["g_23"]], [g["g_13"], g["g_23"], g["g_33"]]]
            point = {"branch": br, "bpsign": bps, "loc": rec["loc"], "inputs": {k: I[k][p] for k in I}, "outputs": g}
            n += 1
            for i in range(3):
                for k in range(3):
                    terms = [up[i][j] * dn[j][k] for j in range(3)]
                    s = sum(terms)
                    if not close(s, 1.0 if i == k else 0.0, scale=sum(map(abs, terms)) + 1, tol=1e-9):
                        chk.fail(f"inverse:{tag}", f"g^{{ij}}g_{{jk}} != delta at ({i+1},{k+1}) on {tag}: {s}", point)
            det = (g["g11"] * g["g22"] * g["g33"] + 2 * g["g12"] * g["g13"] * g["g23"] - g["g11"] * g["g23"] ** 2
                   - g["g22"] * g["g13"] ** 2 - g["g33"] * g["g12"] ** 2)
            if not close(g["J"], hy / Bp):
                chk.fail(f"J:{tag}", f"J != hy/Bpxy on {tag}", point)
            if not (det > 0 and close(abs(g["J"]) * math.sqrt(det), 1.0, tol=1e-7)):
                chk.fail(f"Jdet:{tag}", f"|J| sqrt(det g^ij) != 1 on {tag}: {abs(g['J']) * math.sqrt(abs(det))}", point)
            if not close(g["g11"], (R * Bp) ** 2):
                chk.fail(f"g11:{tag}", "g11 != (R Bp)^2", point)
            if not close(g["g_33"], R * R):
                chk.fail(f"g_33:{tag}", "g_33 != R^2", point)
            cosB = I["cosBeta"][p]
            if not close(g["g22"], 1.0 / (hy * cosB) ** 2):
                chk.fail(f"g22:{tag}", "g22 != 1/(hy cos beta)^2", point)
            if br == "orth" and any(g[k] != 0.0 for k in ("g12", "g13", "g_12", "g_13")):
                chk.fail(f"offdiag:{tag}", "g12,g13,g_12,g_13 not all zero on an orthogonal grid", point)
            # y-z coupling with the zShift of the same file: d(zShift)/dy = hy*Bt/(R*|Bp|)
            dz = hy * Bt / (R * abs(Bp))
            if not close(g["g_23"], g["g_33"] * dz, scale=abs(g["g_33"] * dz)):
                chk.fail(f"yz-coupling:{tag}", f"g_23 != g_33*d(zShift)/dy on {tag}: g_23={g['g_23']}, g_33*dzShift/dy={g['g_33'] * dz}", point)
            # displacements: e_x = dr/dx (dx = grad psi . dr), e_y = hy * yhat, yhat = bpsign * (pZ,-pR)/|grad psi|
            dR, dZ, pR, pZ = I["dR"][p], I["dZ"][p], I["pR"][p], I["pZ"][p]
            dx = pR * dR + pZ * dZ
            exex = (dR * dR + dZ * dZ) / dx ** 2
            exey = hy * bps * (dR * pZ - dZ * pR) / (dx * math.hypot(pR, pZ))
            if not close(g["g_11"], exex, tol=1e-7):
                chk.fail(f"g_11-displacement:{tag}", f"g_11 != e_x.e_x on {tag}: {g['g_11']} vs {exex}", point)
            if not close(g["g_12"], exey, scale=math.sqrt(abs(exex)) * hy, tol=1e-7):
                chk.fail(f"g_12-displacement:{tag}", f"g_12 != e_x.e_y on {tag}: g_12={g['g_12']}, e_x.e_y={exey}", point)
            dph = I["dphidy"][p]
            if not close(g["g_22"] - (R * dph) ** 2, hy * hy, scale=g["g_22"], tol=1e-9):
                chk.fail(f"g_22-poloidal:{tag}", "poloidal part of g_22 != hy^2 = e_y.e_y", point)
            if not close(dph, hy * Bt / (Bp * R)):
                chk.fail(f"dphidy:{tag}", "dphidy != hy Bt/(Bp R)", point)
    return n


def validate_translation(chk, out, recs):
    """Same-IR evaluation (Python) and same-text evaluation (Coq PrimFloat) against the real calcMetric."""
    import numpy
    n_ir = bad_ir = 0
    worst = 0.0
    cases = []
    for rec in recs:
        br = "orth" if rec["orthogonal"] else "nonorth"
        I = rec["in"]
        env = {k: numpy.array(I[k]) for k in ("Rxy", "Bpxy", "hy", "dphidy", "cosBeta", "tanBeta")}
        env["bpsign"] = rec["bpsign"]
        for nm in NAMES:
            model = numpy.broadcast_to(pyir.py_eval(out[f"metric_{br}_{nm}"], env), env["Rxy"].shape)
            impl = numpy.array(rec["out"][nm])
            err = numpy.abs(model - impl) / numpy.maximum(1.0, numpy.abs(impl))
            n_ir += len(impl)
            worst = max(worst, float(err.max()))
            if err.max() > 1e-12:
                p = int(err.argmax())
                bad_ir += 1
                chk.tie_broken(f"translation-validation:{br}:{nm}", {"model": float(model[p]), "impl": float(impl[p]),
                                                                    "inputs": {k: float(numpy.array(v).ravel()[p if numpy.ndim(v) else 0]) for k, v in env.items()}})
        # dphidy (geometry2)
        model = pyir.py_eval(out["geom2_dphidy"], {k: numpy.array(I[k]) for k in ("hy", "Btxy", "Bpxy", "Rxy")})
        if numpy.abs(model - numpy.array(I["dphidy"])).max() > 1e-12 * max(1.0, numpy.abs(model).max()):
            chk.tie_broken("translation-validation:geometry2:dphidy", "IR disagrees with implementation")
        # calcBeta
        if not rec["orthogonal"]:
            envb = {"Rhi": numpy.array(I["dR"]), "Rlo": 0.0, "Zhi": numpy.array(I["dZ"]), "Zlo": 0.0,
                    "fR": 0.37 * numpy.array(I["pR"]), "fZ": 0.37 * numpy.array(I["pZ"])}
            loc = rec["loc"]
            for fn, key in ((f"beta_cosBeta_{loc}", "cosBeta"), (f"beta_sinBeta_{loc}", "sinBeta")):
                model = pyir.py_eval(out[fn], envb)
                if numpy.abs(model - numpy.array(I[key])).max() > 1e-9:
                    chk.tie_broken(f"translation-validation:calcBeta:{fn}", "IR disagrees with implementation")
        # Coq float cases (a subset of points)
        npts = min(len(I["Rxy"]), 12)
        for p in range(npts):
            args = " ".join(fhex(x) for x in (I["Rxy"][p], I["Bpxy"][p], I["hy"][p], I["dphidy"][p], I["cosBeta"][p], I["tanBeta"][p], rec["bpsign"]))
            for nm in NAMES:
                cases.append(f"Fclose tol (metric_{br}_{nm} Fops {args}) {fhex(rec['out'][nm][p])}")
    text = ["From Coq Require Import PrimFloat List. Import ListNotations.", "From HT Require Import Field.", "From HG Require Import Gen_Metric.",
            "Open Scope float_scope.", "Definition tol := 0x1p-36.", "Definition results : list bool := ["]
    text.append(";\n".join(cases))
    text.append("].")
    text.append("Definition nagree := length (filter (fun b => b) results).")
    text.append("Eval vm_compute in (nagree, length results).")
    rc, o, e = common.coq_eval("cases_C02", "\n".join(text))
    import re
    m = re.search(r"=\s*\((\d+)%?n?a?t?,\s*(\d+)", o.replace("\n", " "))
    if rc != 0 or not m:
        chk.tie_broken("translation-validation:coq-float", (o + e)[-1500:])
        agree = total = 0
    else:
        agree, total = int(m.group(1)), int(m.group(2))
        if agree != total:
            chk.tie_broken("translation-validation:coq-float", f"generated Coq text evaluated on binary64 disagrees with calcMetric on {total - agree} of {total} values")
    chk.notes["translation_validation"] = {"ir_values_compared": n_ir, "ir_worst_rel_err": worst, "coq_float_values_compared": total, "coq_float_agree": agree}
    chk.cov["programs"] = 2 * len(NAMES) + 6
    chk.cov["disagreements_checked"] = n_ir + total
    return n_ir + total


def run(chk):
    out = translate(chk)
    chk.trust("translate/metric.py + translate/pyir.py (Python ast -> Gallina; validated against the implementation on every run, not proved)")
    chk.assume("hy, beta, zShift enter as free variables here (their values are the subject of C05/C06)",
               "linearised cell dx = grad(psi).dr in the displacement statements",
               "binary64 rounding is not modelled: theorems are over Coq's R")
    r = chk.coq()
    reps = 2 if chk.tier == "quick" else 12
    rc, recs, o, e = common.run_impl_json("impl/metric.py", {"seed": chk.seed, "nx": 5, "ny": 6, "reps": reps}, timeout=600)
    if recs is None:
        chk.tie_broken("impl/metric.py", f"implementation run failed rc={rc}: {(o + e)[-1500:]}")
        return
    if out is not None:
        nv = validate_translation(chk, out, recs)
    npts = oracle(chk, recs)
    chk.count(evaluations=npts, distinct=npts)
    chk.notes["rule"] = "random point data (R, grad psi, radial displacement at random skew angle, hy, Bt) x {orth, nonorth} x {bpsign +1,-1} x {centre, ylow}; all points distinct, non-trivial = non-zero Bt and (nonorth) non-zero skew"
    chk.cov["rule"] = chk.notes["rule"]
    chk.sample({"implementation_point": {k: recs[-1]["in"][k][0] for k in recs[-1]["in"]}, "branch": "nonorth", "bpsign": recs[-1]["bpsign"]})
    # grid-level oracle on the corpus
    try:
        from props import c02_grid
        c02_grid.run(chk)
    except ImportError:
        pass
