"""C16 -- equivariance under reflection and field reversal of the equilibrium."""
import os

import numpy as np

import common
import corpus
from common import REPO, GEN
from props import c01, c02, c03, c08, c10

import pyir
import options as tro

LEVEL = "proof"
TWOPI = 2 * np.pi


def translate(chk):
    for m in (c02, c03, c08, c10):
        m.translate(chk)
    try:
        text, d = tro.emit(REPO)
    except (pyir.TranslationError, SyntaxError, OSError) as e:
        chk.tie_broken("translate/options.py", f"translator refused the source: {e}")
        return None
    common.write_if_changed(os.path.join(GEN, "Gen_Options.v"), text)
    return d


def mirror_name(n):
    if "lower" in n:
        return n.replace("lower", "upper")
    if "upper" in n:
        return n.replace("upper", "lower")
    return n


def flip(a):
    return a[:, ::-1]


MAG_FIELDS = ("psixy", "hy", "Bxy", "dx", "dy", "g11", "g22", "g33", "g12", "g13", "g23", "J", "g_11", "g_22", "g_33", "g_12", "g_13", "g_23", "dphidy", "Btxy", "Brxy", "Bzxy", "Bpxy",
              "pressure", "curl_bOverB_x", "curl_bOverB_y", "curl_bOverB_z", "bxcvx", "bxcvy", "bxcvz")


def check_mirror(chk, A, B, kind, stats):
    """B is the mirror image (Z -> -Z, lower <-> upper) of A: region by region, y reversed"""
    n = 0
    byname = {r["name"]: r for r in B.d["regions"].values()}
    for rid, ra in A.d["regions"].items():
        nm = mirror_name(ra["name"])
        if nm not in byname:
            chk.fail(f"mirror:{kind}:regions", "the mirror image of a region does not exist in the grid of the reflected equilibrium", {"grids": [A.name, B.name], "region": ra["name"], "expected": nm, "have": sorted(byname)})
            continue
        rb = byname[nm]
        Aa, Ab = ra["arrays"], rb["arrays"]
        if Aa["Rxy"]["centre"].shape != Ab["Rxy"]["centre"].shape:
            chk.fail(f"mirror:{kind}:shape", "a region and its mirror image have different sizes", {"grids": [A.name, B.name], "region": ra["name"], "shapes": [Aa["Rxy"]["centre"].shape, Ab["Rxy"]["centre"].shape]})
            continue
        ri = ra["radialIndex"]
        # (the line through the X-point continues across ALL radial segments of the region)
        xs_start = any(p is not None for p in ra["xPointsAtStart"])
        xs_end = any(p is not None for p in ra["xPointsAtEnd"])
        for loc in ("centre", "xlow", "ylow", "corners"):
            for k, sgn in (("Rxy", 1.0), ("Zxy", -1.0)):
                dd = np.abs(Aa[k][loc] - sgn * flip(Ab[k][loc]))
                # the radial grid line through an X-point: each region starts a little away from the X-point and the join takes the upper region's
                # values (fillRZ / getRZBoundary), so which region supplies that line differs between a grid and its mirror image: 5e-4 m there
                tol = np.full(dd.shape, 1e-8)
                if loc in ("ylow", "corners"):
                    if xs_start:
                        tol[:, 0] = 5e-4
                    if xs_end:
                        tol[:, -1] = 5e-4
                e = float(np.max(dd))
                n += dd.size
                stats["pos"] = max(stats["pos"], float(np.max(np.where(tol > 1e-5, 0.0, dd))))
                stats["xpoint_line"] = max(stats.get("xpoint_line", 0.0), float(np.max(np.where(tol > 1e-5, dd, 0.0))))
                if np.any(dd > tol):
                    p = np.unravel_index(np.argmax(dd - tol), dd.shape)
                    chk.fail(f"mirror:{kind}:positions", "the grid of the reflected equilibrium is not the reflected grid with the y order reversed (equal R, negated Z)",
                             {"grids": [A.name, B.name], "region": ra["name"], "mirror_region": nm, "loc": loc, "field": k, "index": [int(p[0]), int(p[1])], "difference": float(dd[p])})
                    break
        # the RUNNING fields (measured from the start of the y-chain, which is the other end in the mirror image): value + reversed mirror value is the
        # same all along each flux surface of the region (theorems C16_distance_under_y_reversal / C16_integral_under_y_reversal)
        for k in ("poloidal_distance", "zShift"):
            if k not in Aa or k not in Ab:
                continue
            for loc in ("ylow", "centre", "xlow", "corners"):
                if loc not in Aa[k] or loc not in Ab[k]:
                    continue
                ssum = Aa[k][loc] + flip(Ab[k][loc])
                if not np.all(np.isfinite(ssum)):
                    continue
                spread = float(np.max(np.ptp(ssum, axis=1)))
                sc = max(1.0, float(np.max(np.abs(Aa[k][loc]))))
                n += ssum.size
                stats["running"] = max(stats.get("running", 0.0), spread / sc)
                if spread > 1e-6 * sc:      # (observed <= 2.4e-9; a chain started from the wrong place is off by a cell's increment)
                    chk.fail(f"mirror:{kind}:running:{k}", f"{k} of the reflected equilibrium's grid is not 'constant minus the reversed {k}' of the grid along a flux surface",
                             {"grids": [A.name, B.name], "region": ra["name"], "mirror_region": nm, "loc": loc, "spread_along_y": spread})
        if float(ra["bpsign"]) != float(rb["bpsign"]):
            chk.fail(f"mirror:{kind}:bpsign", "a grid and its mirror image have different signs of Bp", {"grids": [A.name, B.name], "region": ra["name"]})
        for k in MAG_FIELDS:
            if k not in Aa or k not in Ab:
                continue
            for loc in ("centre", "ylow"):
                if loc not in Aa[k] or loc not in Ab[k]:
                    continue
                a, b = np.abs(Aa[k][loc]), np.abs(flip(Ab[k][loc]))
                ok = np.isfinite(a) & np.isfinite(b)
                ri = ra["radialIndex"]
                # the cells that touch an X-point are excluded (non-smooth there: differences of the contour-following tolerances are amplified)
                if xs_start:
                    ok[:, :1] = False
                if xs_end:
                    ok[:, -1:] = False
                if not ok.any():
                    continue
                sc = float(np.max(a[ok])) or 1.0
                e = float(np.max(np.abs(a - b)[ok])) / sc
                n += int(ok.sum())
                stats["mag"] = max(stats["mag"], e)
                tol = 2e-6
                if e > tol:
                    chk.fail(f"mirror:{kind}:magnitude:{k}", f"|{k}| of the reflected equilibrium's grid differs from the reflected grid's",
                             {"grids": [A.name, B.name], "region": ra["name"], "mirror_region": nm, "loc": loc, "max_rel_difference": e})
            if k in ("Bpxy", "J") and "centre" in Aa[k]:
                if np.any(np.sign(Aa[k]["centre"]) != np.sign(flip(Ab[k]["centre"]))):
                    chk.fail(f"mirror:{kind}:sign:{k}", f"the sign of {k} differs between a grid and its mirror image", {"grids": [A.name, B.name], "region": ra["name"]})
    return n


def check_same_positions(chk, A, B, key, stats, tol=1e-7):
    n = 0
    for loc in ("centre", "xlow", "ylow"):
        for k in ("Rxy", "Zxy"):
            e = float(np.max(np.abs(A.d["global"][k][loc] - B.d["global"][k][loc])))
            n += A.d["global"][k][loc].size
            stats["pos"] = max(stats["pos"], e)
            if e > tol:
                chk.fail(f"{key}:positions", "grid positions change under a field reversal / unit option that must leave them unchanged", {"grids": [A.name, B.name], "field": k, "loc": loc, "max_difference": e})
    return n


def check_reversal(chk, A, B, key, expect, stats):
    """same positions; every field equal up to a sign (expect: field -> +1/-1 where the sign is known)"""
    n = check_same_positions(chk, A, B, key, stats)
    for k, va in A.d["global"].items():
        if k in ("penalty_mask", "Rxy", "Zxy") or k not in B.d["global"]:
            continue
        vb = B.d["global"][k]
        for loc in ("centre", "xlow", "ylow"):
            if not isinstance(va, dict) or loc not in va or loc not in vb:
                continue
            a, b = va[loc], vb[loc]
            ok = np.isfinite(a) & np.isfinite(b)
            if np.any(np.isfinite(a) != np.isfinite(b)):
                chk.fail(f"{key}:defined-where:{k}", f"{k} is defined at different points after the reversal", {"grids": [A.name, B.name], "loc": loc})
            if not ok.any():
                continue
            sc = float(np.max(np.abs(a[ok]))) or 1.0
            ep, em = float(np.max(np.abs(a - b)[ok])) / sc, float(np.max(np.abs(a + b)[ok])) / sc
            n += int(ok.sum())
            stats["mag"] = max(stats["mag"], min(ep, em))
            if min(ep, em) > 1e-6:
                chk.fail(f"{key}:magnitude:{k}", f"{k} changes by more than a sign under the reversal", {"grids": [A.name, B.name], "loc": loc, "diff_if_equal": ep, "diff_if_negated": em})
            elif k in expect and sc > 0:
                got = 1.0 if ep <= em else -1.0
                if ep > 1e-9 or em > 1e-9:   # not identically zero
                    if got != expect[k]:
                        chk.fail(f"{key}:sign:{k}", f"{k} should be {'unchanged' if expect[k] > 0 else 'negated'} by the reversal", {"grids": [A.name, B.name], "loc": loc, "diff_if_equal": ep, "diff_if_negated": em})
    return n


def check_identical(chk, A, B, key, stats, tol=1e-7):
    n = check_same_positions(chk, A, B, key, stats)
    for k, va in A.d["global"].items():
        if k not in B.d["global"] or not isinstance(va, dict):
            continue
        for loc, a in va.items():
            b = B.d["global"][k].get(loc)
            if b is None:
                continue
            ok = np.isfinite(a) & np.isfinite(b)
            if np.any(np.isfinite(a) != np.isfinite(b)) or not ok.any():
                continue
            sc = float(np.max(np.abs(a[ok]))) or 1.0
            e = float(np.max(np.abs(a - b)[ok])) / sc
            n += int(ok.sum())
            stats["mag"] = max(stats["mag"], e)
            if e > tol:
                chk.fail(f"{key}:{k}", f"{k} differs between the option and the directly transformed inputs", {"grids": [A.name, B.name], "loc": loc, "max_rel_difference": e})
    for k in ("psi_axis", "psi_bdry", "Bt_axis", "ixseps1", "ixseps2", "jyseps1_1", "jyseps2_2"):
        a, b = float(A.d["file"][k]), float(B.d["file"][k])
        n += 1
        if abs(a - b) > 1e-6 * max(1.0, abs(a)):
            chk.fail(f"{key}:scalar:{k}", f"{k} differs between the option and the directly transformed inputs", {"grids": [A.name, B.name], "values": [a, b]})
    return n


def run(chk):
    np.seterr(all="ignore")
    translate(chk)
    chk.trust("translate/options.py (option pre-processing blocks), translate/geom1.py, translate/metric.py, translate/fields.py, translate/topo.py (connection tables, topology integers)",
              "CONTRACT: with positions fixed, the remaining inputs of calcMetric transform as stated (Bpxy, bpsign, dphidy, cosBeta change sign under current reversal; tanBeta does not) -- "
              "monitored on the corpus pair lsn_nonorth / lsn_neg_nonorth; contour following is deterministic in its inputs (mirror pairs agree to 2e-6 m)")
    chk.assume("cells touching an X-point are excluded from the magnitude comparison of mirror pairs (amplified tolerance differences); zShift / poloidal_distance of mirror pairs run from the other end: value + reversed mirror value is compared for constancy along each flux surface")
    chk.coq()
    # (+ a non-orthogonal up-down symmetric double null whose outer targets are so oblique that contours are extended to reach the wall: the leg that ENDS on the wall is the
    # mirror image of one that STARTS on it, so the two near-identical blocks of addPointAtWallToContours are compared with each other)
    # a single-null mirror pair WITHOUT target spacings (the default None selects other branches of the spacing functions, in particular of their
    # continuation into the guard cells beyond the targets) and with guard cells.  One guard cell: with two, the exponentially growing
    # continuation puts the outermost guard points beyond the Z range of the equilibrium data (there the lower single null still produces a grid,
    # with meaningless distances for those points, while its mirror image raises 'Distance not monotonically increasing': FineContour.getDistance
    # cannot see a point beyond its start but does see one beyond its end -- outside the supported envelope, recorded in DESIGN section 7)
    nosp = {k: v for k, v in corpus.SN.items() if k != "target_all_poloidal_spacing_length"}
    extra = [corpus.steep_cdn_cfg(), dict(corpus.CONFIGS["usn_nonorth"], must_build=True),
             corpus.tok("lsn_nosp", "lsn", nosp, options=dict(ny_inner_divertor=3, ny_outer_divertor=5, y_boundary_guards=1), must_build=True),
             corpus.tok("usn_nosp", "usn", nosp, options=dict(ny_inner_divertor=3, ny_outer_divertor=5, y_boundary_guards=1), must_build=True)]
    # a disconnected double null in which only ONE of the two per-leg private-flux limits is given (the other falls back to psinorm_pf), and its mirror image
    extra += [corpus.tok("udn_pfl", "udn", corpus.DN, options=dict(psinorm_pf_lower=0.93), must_build=True),
              corpus.tok("udn_m_pfu", "udn_m", corpus.DN, mirror=True, options=dict(psinorm_pf_upper=0.93), must_build=True)]
    G = {g.name: g for g in corpus.get(tier=chk.tier, extra_cfgs=extra) if g.ok}
    n = 0
    # the two ends of a region are treated alike by the non-orthogonal blending (a region's start is its mirror image's end)
    n += c10.check_range_parameters(chk, prefix="mirror:")
    stats = {}

    def st(k):
        return stats.setdefault(k, dict(pos=0.0, mag=0.0, xpoint_line=0.0))
    mirrors = [("lsn_35", "usn", "sn"), ("cdn_nonorth_steep", "cdn_nonorth_steep", "dn-connected-nonorth-extended"), ("lsn_nonorth", "usn_nonorth", "sn-nonorth"), ("lsn_nosp", "usn_nosp", "sn-no-target-spacing"), ("udn", "udn_m", "dn-disconnected"), ("udn_pfl", "udn_m_pfu", "dn-one-per-leg-limit"), ("cdn_sym", "cdn_sym", "dn-connected")]
    if chk.tier == "thorough":
        mirrors += [("udn2", "udn2_m", "dn-disconnected")]
    for a, b, kind in mirrors:
        if a in G and b in G:
            n += check_mirror(chk, G[a], G[b], kind, st(f"mirror:{a}/{b}"))
        else:
            chk.tie_broken("corpus", f"mirror pair {a}/{b} not available")
    # SN topology integers of the mirror pair (the lemma's relation, on the files)
    if "lsn_35" in G and "usn" in G:
        fa, fb = G["lsn_35"].d["file"], G["usn"].d["file"]
        N = int(fa["ny"])
        for x, y in (("jyseps1_1", "jyseps2_2"), ("jyseps2_2", "jyseps1_1")):
            n += 1
            if int(fb[x]) != N - 2 - int(fa[y]):
                chk.fail(f"mirror:sn:{x}", "the branch-cut integers of the upper single null are not the reflected integers of the lower single null", {"lsn": {k: int(fa[k]) for k in ("ny", "jyseps1_1", "jyseps2_2")}, "usn": {k: int(fb[k]) for k in ("ny", "jyseps1_1", "jyseps2_2")}})
        for x in ("ixseps1", "ixseps2"):
            if int(fa[x]) != int(fb[x]):
                chk.fail(f"mirror:sn:{x}", "ixseps differ between a single null and its mirror image", {"lsn": int(fa[x]), "usn": int(fb[x])})
    # psi -> -psi fed directly
    signs_rc = dict(psixy=-1, Brxy=-1, Bzxy=-1, Bpxy=-1, Btxy=1, Bxy=1, hy=1, dx=-1, J=-1, g11=1, g22=1, g33=1, g_11=1, g_22=1, g_33=1, pressure=1, dy=1, poloidal_distance=1)
    for a, b in (("lsn", "lsn_neg"), ("lsn_nonorth", "lsn_neg_nonorth"), ("cdn_sym", "cdn_neg")) + ((("udn", "udn_neg"),) if chk.tier == "thorough" else ()):
        if a in G and b in G:
            n += check_reversal(chk, G[a], G[b], f"reversal:psi-sign:{'dn' if 'dn' in a else 'sn'}:{'orth' if 'nonorth' not in a else 'nonorth'}", signs_rc, st(f"reversal:{a}/{b}"))
        else:
            chk.tie_broken("corpus", f"reversal pair {a}/{b} not available")
    # options vs direct transformation
    if "lsn_rev3" in G and "lsn_direct3" in G:
        n += check_identical(chk, G["lsn_rev3"], G["lsn_direct3"], "options-vs-direct:reverse_current+psi_divide_twopi+reverse_Bt", st("options/direct"))
    else:
        chk.tie_broken("corpus", "lsn_rev3 / lsn_direct3 not available")
    if chk.tier == "thorough":
        signs_rb = dict(psixy=1, Brxy=1, Bzxy=1, Bpxy=1, Btxy=-1, Bxy=1, hy=1, dx=1, J=1, dphidy=-1, zShift=-1, g11=1, g22=1, g33=1, pressure=1)
        if "lsn" in G and "lsn_revBt" in G:
            n += check_reversal(chk, G["lsn"], G["lsn_revBt"], "reversal:fpol-sign", signs_rb, st("reversal:lsn/lsn_revBt"))
        if "lsn_revBt" in G and "lsn_revBt_opt" in G:
            n += check_identical(chk, G["lsn_revBt_opt"], G["lsn_revBt"], "options-vs-direct:reverse_Bt", st("options/direct:Bt"))
    chk.count(evaluations=n, distinct=n)
    chk.cov["rule"] = ("mirror pairs (lsn/usn with exchanged leg sizes, udn/udn_m, connected double null with itself; thorough: unequal-leg disconnected double nulls): every region against its mirror "
                       "region, y reversed, 4 locations: R, Z, bpsign, 30 field magnitudes; branch-cut integers.  Reversal pairs (psi -> -psi direct, orthogonal and non-orthogonal; fpol -> -fpol): "
                       "positions and every output field up to the expected sign.  Options (all three at once) against the directly transformed inputs: every field and scalar identical")
    chk.notes["worst"] = {k: {a: float(f"{b:.3g}") for a, b in v.items()} for k, v in stats.items()}
    chk.sample({"worst": chk.notes["worst"]})
