"""C06 -- zShift, ShiftAngle, dphidy, ShiftTorsion."""
import numpy as np

import common
import corpus
from props import c01, c02

LEVEL = "proof"


def translate(chk):
    c02.translate(chk)
    return c01.translate(chk)


def run(chk):
    c02.translate(chk)
    info = c01.translate(chk)
    chk.trust("translate/metric.py (dphidy of geometry2) and translate/slices.py fingerprints of calcZShift / the y-group loop; translate/topo.py tables",
              "hand model theories/Model_Chain.v tied by correspondence with the arrays of real grids",
              "CONTRACT: cumulative_trapezoid of Bt/(R|Bp|) on the FineContour + linear interpolation approximates the integral (monitored: Simpson rule on the "
              "grid's own face/centre values with the grid's own arc lengths)")
    chk.assume("ShiftAngle = 2 pi q for the circular equilibrium is checked numerically, not proved")
    chk.coq()
    # the quadrature itself: theories/Model_Quadrature.v (PrimFloat instance) against the real calcZShift on stub regions (whole pipeline:
    # calcDistance, getDistance, integrand, cumulative_trapezoid, shift, interp1d, accumulation, hand-over, ShiftAngle)
    from props import quad
    chk.trust("hand model theories/Model_Quadrature.v of MeshRegion.calcZShift (integrand, scipy cumulative_trapezoid, shift to startInd, scipy interp1d = numpy.interp "
              "with bounds_error, accumulation, hand-over along the y-group, ShiftAngle), run bit for bit (binary64) against the real method on stub regions on every run")
    qc = quad.correspondence(chk, 120 if chk.tier == "quick" else 1500, ["zshift"], "zshift")
    nq = len(qc[0]) if qc else 0
    # ShiftTorsion = DDX(dphidy): theories/Model_Stencil.v (PrimFloat instance) against the real MeshRegion.DDX / DDY on stub regions
    from props import stencil
    chk.trust("hand model theories/Model_Stencil.v of MeshRegion.DDX / DDY (cell values, interior / boundary / shared faces), run bit for bit against the real methods on stub regions")
    nq += stencil.correspondence(chk, 60 if chk.tier == "quick" else 600)
    # an option that only C06's relations can be checked under (it deliberately modifies Bpxy at the y-faces next to an X-point, so the field
    # oracles of other properties do not apply): dphidy must be computed from the Bpxy that is written to the file.  Needs Bp > 0 for the cap to act.
    extra = [corpus.tok("lsn_neg_capBp", "lsn", corpus.SN, sign=-1.0, options=dict(cap_Bp_ylow_xpoint=True), must_build=True)]
    grids = corpus.get(tier=chk.tier, extra_cfgs=extra)
    n = nq
    worst = {}
    for g in grids:
        if not g.ok:
            continue
        R = g.d["regions"]
        myg = int(g.d["mesh"]["user_options"].get("y_boundary_guards", 0))
        w = dict(dphidy=0.0, simpson=0.0, torsion=0.0, shiftangle=0.0)
        for rid, r in R.items():
            A = r["arrays"]
            # ---- dphidy = hy*Btxy/(Bpxy*Rxy), every location it is defined at
            for loc in ("centre", "xlow", "ylow", "corners"):
                if all(loc in A[k] for k in ("dphidy", "hy", "Btxy", "Bpxy", "Rxy")):
                    ref = A["hy"][loc] * A["Btxy"][loc] / (A["Bpxy"][loc] * A["Rxy"][loc])
                    ok = np.isfinite(ref)
                    e = np.abs(A["dphidy"][loc] - ref)[ok] / (np.abs(ref)[ok] + 1e-300)
                    n += int(ok.sum())
                    if e.size:
                        w["dphidy"] = max(w["dphidy"], float(e.max()))
                        if e.max() > 1e-12:
                            chk.fail(f"dphidy:{loc}", "dphidy is not hy*Btxy/(Bpxy*Rxy)", {"grid": g.name, "region": r["name"], "loc": loc, "max_rel_err": float(e.max())})
            # ---- ShiftTorsion.centre = (dphidy.xlow[i+1] - dphidy.xlow[i]) / dx.centre
            if "centre" in A["ShiftTorsion"] and "xlow" in A["dphidy"]:
                ref = (A["dphidy"]["xlow"][1:, :] - A["dphidy"]["xlow"][:-1, :]) / A["dx"]["centre"]
                e = np.abs(A["ShiftTorsion"]["centre"] - ref)
                if np.nanmax(e) > 1e-12 * max(1.0, np.nanmax(np.abs(ref))):
                    chk.fail("ShiftTorsion", "ShiftTorsion.centre is not the centred x-derivative of dphidy", {"grid": g.name, "region": r["name"], "max_err": float(np.nanmax(e))})
                w["torsion"] = max(w["torsion"], float(np.nanmax(e)))
            # ---- local integral: zShift difference over a cell vs Simpson of Bt/(R|Bp|) times the cell's arc length
            f = lambda loc: A["Btxy"][loc] / (A["Rxy"][loc] * np.abs(A["Bpxy"][loc]))
            fl, fc = f("ylow"), f("centre")
            dz = A["zShift"]["ylow"][:, 1:] - A["zShift"]["ylow"][:, :-1]
            arc = A["hy"]["centre"] * A["dy"]["centre"]
            simp = (fl[:, :-1] + 4 * fc + fl[:, 1:]) / 6.0 * arc
            ok = np.ones_like(dz, dtype=bool)
            ri = r["radialIndex"]
            if r["xPointsAtStart"][ri] is not None or r["xPointsAtStart"][ri + 1] is not None:
                ok[:, 0] = False
            if r["xPointsAtEnd"][ri] is not None or r["xPointsAtEnd"][ri + 1] is not None:
                ok[:, -1] = False
            ok &= np.abs(simp) > 1e-12
            if ok.any():
                rel = np.abs(dz - simp)[ok] / np.abs(simp)[ok]
                n += int(ok.sum())
                w["simpson"] = max(w["simpson"], float(rel.max()))
                if rel.max() > 0.35:
                    idx = np.argwhere(ok)[int(rel.argmax())]
                    chk.fail("zShift-not-integral", "the increase of zShift over a cell is not the integral of Bt/(R|Bp|) over the cell's poloidal arc length",
                             {"grid": g.name, "region": r["name"], "index": idx.tolist(), "dzShift": float(dz[tuple(idx)]), "integral_estimate": float(simp[tuple(idx)])})
            if np.any(np.diff(np.stack([A["zShift"]["ylow"][:, :-1], A["zShift"]["centre"]], axis=2).reshape(A["zShift"]["centre"].shape[0], -1), axis=1) * np.sign(np.nanmean(fc)) < 0):
                chk.fail("zShift-not-monotone", "zShift does not vary monotonically along a flux surface although Bt/(R|Bp|) has one sign", {"grid": g.name, "region": r["name"]})
        # ---- chains: start value, continuity at joins, ShiftAngle, jump location
        for grp in g.d["mesh"]["y_groups"]:
            first = R[grp[0]]
            periodic = first["connections"]["lower"] is not None
            for loc in ("ylow", "corners"):
                j0 = myg if (not periodic and first["connections"]["lower"] is None) else 0
                z0 = first["arrays"]["zShift"][loc][:, j0]
                # the value there is slope * (distance of the first contour point - distance of the fine contour's startInd): zero up to
                # the rounding of FineContour.getDistance times the local Bt/(R Bp), which is large next to an X-point
                # (theories/Model_Quadrature.v; 4e-12 observed on a non-orthogonal double null).  A start that is not the origin of
                # the integral is off by a whole cell's increment.
                if np.max(np.abs(z0)) > 1e-9 * max(1.0, float(np.nanmax(np.abs(first["arrays"]["zShift"]["centre"])))):
                    chk.fail("zShift:origin", "zShift is not zero at the start of its chain of y-connected regions (target face / first core cell)",
                             {"grid": g.name, "region": first["name"], "loc": loc, "value": float(np.max(np.abs(z0)))})
                for a, b in zip(grp[:-1], grp[1:]):
                    jump = np.max(np.abs(R[b]["arrays"]["zShift"][loc][:, 0] - R[a]["arrays"]["zShift"][loc][:, -1]))
                    if jump > 1e-9:
                        chk.fail("zShift:jump-at-join", "zShift is not continuous across a region join inside a chain", {"grid": g.name, "regions": [R[a]["name"], R[b]["name"]], "loc": loc, "jump": float(jump)})
            if periodic:
                last = R[grp[-1]]
                for loc, sloc in (("ylow", "centre"), ("corners", "xlow")):
                    sa = first["arrays"]["ShiftAngle"][sloc][:, 0]
                    once_round = last["arrays"]["zShift"][loc][:, -1] - first["arrays"]["zShift"][loc][:, 0]
                    e = float(np.max(np.abs(sa - once_round) / np.abs(once_round)))
                    w["shiftangle"] = max(w["shiftangle"], e)
                    if e > 1e-12:
                        chk.fail("ShiftAngle", "ShiftAngle is not the toroidal displacement once round the closed surface (all regions of the periodic chain)",
                                 {"grid": g.name, "y_group": [R[i]["name"] for i in grp], "ShiftAngle": sa.tolist(), "once_round": once_round.tolist()})
                if not all("core" in R[i]["name"] or "circular" in R[i]["name"] for i in grp):
                    chk.fail("jump-location", "the periodic chain (where the single jump of zShift sits) is not made of core regions only", {"grid": g.name, "y_group": [R[i]["name"] for i in grp]})
        # ---- ShiftAngle is defined exactly on closed surfaces in the assembled array
        G = g.d["global"]
        if "ShiftAngle" in G and "jyseps1_1" in g.d["file"]:
            sa = G["ShiftAngle"]["centre"][:, 0]
            ix = int(min(g.d["file"]["ixseps1"], g.d["file"]["ixseps2"])) if g.cfg["kind"] == "tokamak" else len(sa)
            if not (np.all(np.isfinite(sa[:ix])) and np.all(np.isnan(sa[ix:]))):
                chk.fail("ShiftAngle:defined-where", "ShiftAngle is not finite exactly on the closed flux surfaces", {"grid": g.name, "ShiftAngle": sa.tolist(), "first_open_x": ix})
        # circular: ShiftAngle = 2 pi q(r)
        if g.cfg["kind"] == "circular":
            sa = G["ShiftAngle"]["centre"][:, 0]
            dz_total = sa
            chk.notes.setdefault("circular_shiftangle", {})[g.name] = sa.tolist()
        worst[g.name] = {k: float(f"{v:.3g}") for k, v in w.items()}
    chk.count(evaluations=n, distinct=n)
    chk.cov["rule"] = "every region / chain of the corpus grids: dphidy and ShiftTorsion formulas exactly, zShift increments vs Simpson's rule with the grid's own arc lengths, origin, continuity, ShiftAngle, jump location"
    chk.notes["worst"] = worst
    chk.sample({"worst": worst})
