"""C09 -- radial psi grid."""
import math
import os
import random
import re

import numpy as np

import common
import corpus
from common import REPO, GEN

import pyir
import radial as tr

LEVEL = "proof"


def translate(chk):
    try:
        text, out = tr.emit(REPO)
    except (pyir.TranslationError, SyntaxError, OSError) as e:
        chk.tie_broken("translate/radial.py", f"translator refused equilibrium.py: {e}")
        return None
    common.write_if_changed(os.path.join(GEN, "Gen_Radial.v"), text)
    return out


def gen_cases(rng, tier):
    cases = []
    N = 60 if tier == "quick" else 600
    for _ in range(N):
        n = rng.choice([1, 2, 3, 4, 5, 8, 16])
        lower = rng.uniform(-2, 2)
        delta = rng.choice([-1, 1]) * 10 ** rng.uniform(-3, 0.5)
        upper = lower + delta
        avg = delta / n
        ratio = lambda: rng.choice([0.05, 0.25, 0.5, 0.9, 0.999999, 1.0, 1.000001, 1.2, 1.5, 2.0, 3.0, 10.0, 20.0]) if rng.random() < 0.7 else 10 ** rng.uniform(-1.3, 1.3)
        kind = rng.choice(["none", "lower", "upper", "both"])
        c = dict(n=n, lower=lower, upper=upper, gl=None, gu=None)
        if kind in ("lower", "both"):
            c["gl"] = avg * ratio()
        if kind in ("upper", "both"):
            c["gu"] = avg * ratio()
        cases.append(c)
    # structured corpus: decreasing ordering with a steep end gradient on each side, two gradients with both averages
    cases += [dict(n=2, lower=1.0, upper=0.25, gl=None, gu=-1.125), dict(n=2, lower=1.0, upper=0.25, gl=-1.125, gu=None),
              dict(n=5, lower=0.0, upper=1.0, gl=0.3, gu=0.3), dict(n=5, lower=0.0, upper=1.0, gl=0.05, gu=0.6),
              dict(n=5, lower=1.0, upper=0.0, gl=-0.3, gu=-0.05), dict(n=4, lower=0.0, upper=1.0, gl=0.0, gu=0.4)]
    # two end gradients of very different size whose ARITHMETIC mean asks for a decreased spacing while their geometric mean does not
    # (the branch guard compares the arithmetic mean; added because of seed C09-11)
    cases += [dict(n=7, lower=0.0, upper=1.0, gl=1.0, gu=1e-4), dict(n=10, lower=0.0, upper=1.0, gl=1e-4, gu=1.0),
              dict(n=10, lower=1.0, upper=0.0, gl=-1.0, gu=-1e-4), dict(n=8, lower=-0.5, upper=0.5, gl=0.6, gu=0.002)]
    return cases


def branch_of(c):
    n, D = c["n"], c["upper"] - c["lower"]
    if c["gl"] is None and c["gu"] is None:
        return "linear"
    if c["gu"] is None:
        return "lower_cubic" if abs(c["gl"] * n) < abs(D) * (1 + 1e-8) else "lower_erf"
    if c["gl"] is None:
        return "upper_cubic" if abs(c["gu"] * n) < abs(D) * (1 + 1e-8) else "upper_erf"
    return "both_trig" if 0.5 * abs(c["gl"] + c["gu"]) * n < abs(D) * (1 + 1e-8) else "both_sici"


def run(chk):
    out = translate(chk)
    chk.trust("translate/radial.py (branch guards + returned lambdas -> Gallina over R; validated against the real function each run)",
              "erf enters the Coq theorems as a Section variable with erf 0 = 0, erf odd, erf' = 2/sqrt(pi) exp(-x^2) (contract); brentq through constraint(a) = 0, a > 0",
              "the two-gradient decreasing branch (sici closed form) is NOT modelled: covered by the numerical oracle only")
    chk.assume("binary64 rounding not modelled (theorems over R); 'exactly at the boundary values' is checked on the implementation to 1e-12 relative")
    chk.coq()
    rng = random.Random(chk.seed)
    cases = gen_cases(rng, chk.tier)
    eq_reqs = []
    base = dict(psinorm_core=0.8, psinorm_sol=1.2, psinorm_pf=0.9, number_of_processors=1)
    mults = [0.5, 2.0] if chk.tier == "quick" else [0.05, 0.5, 1.0, 2.0, 20.0, None]
    for fam, sign in (("lsn", 1), ("lsn", -1), ("usn", 1), ("cdn", 1), ("cdn_pert", 1), ("cdn_pert", -1), ("cdn_pert_m", 1), ("udn", 1), ("ldn", 1), ("udn2", 1)):
        for m in mults:
            o = dict(base, nx_core=rng.randint(3, 6), nx_sol=rng.randint(3, 6), psi_spacing_separatrix_multiplier=m)
            if fam in ("udn", "ldn", "udn2"):
                o["nx_inter_sep"] = rng.randint(1, 3)
            eq_reqs.append(dict(family=fam, sign=sign, options=o))
            # the same at 32 times the radial resolution: there the one-sided differences at a separatrix resolve the gradient of the spacing function
            fine = dict(o, **{k: 32 * v for k, v in o.items() if k in ("nx_core", "nx_sol", "nx_inter_sep")})
            eq_reqs.append(dict(family=fam, sign=sign, options=fine, fine=True))
    # continuity in the parameters: geometric sweeps of the end-gradient ratio through all branch switches
    delta = 0.004 if chk.tier == "quick" else 0.002
    # option resolution: an unnormalised psi_* limit takes precedence over its psinorm_* partner and over nothing else (mixed use in one option set)
    import analytic
    import crit
    for fam, sign in (("udn", 1), ("cdn", -1), ("lsn", 1)):
        g_, h_ = crit.analytic_funcs(fam, float(sign))
        cps = crit.find_all(g_, h_, (1.25, 1.75, -0.45, 0.45), n=10)
        ax = min((p for p in cps if p[2] == "O"), key=lambda p: abs(p[1]))
        pa_ = float(analytic.psi(fam, ax[0], ax[1], float(sign)))
        px_ = min((float(analytic.psi(fam, p[0], p[1], float(sign))) for p in cps if p[2] == "X"), key=lambda v: abs(v - pa_))
        unn = lambda nrm: pa_ + nrm * (px_ - pa_)
        for mix in (dict(psi_sol=unn(1.12), psinorm_sol_inner=1.06), dict(psinorm_sol=1.12, psi_sol_inner=unn(1.06)), dict(psi_core=unn(0.85), psinorm_pf_lower=0.93),
                    dict(psi_pf_lower=unn(0.93), psinorm_pf=0.9, psi_sol=unn(1.15))):
            o = dict(base, nx_core=4, nx_sol=4, psi_spacing_separatrix_multiplier=1.0)
            o.update(mix)
            eq_reqs.append(dict(family=fam, sign=sign, options=o, mixed_limits=True))
    ratios = [0.3 * (1 + delta) ** k for k in range(int(math.log(6.0 / 0.3) / math.log(1 + delta)) + 1)]
    sweep_reqs = []
    for which in ("upper", "lower", "both"):
        for (n, lo, up) in ((8, 0.2, 1.0), (16, 1.0, -0.3)) + (() if chk.tier == "quick" else ((5, -2.0, -1.0), (33, 0.0, 4.0))):
            sweep_reqs.append(dict(which=which, n=n, lower=lo, upper=up, ratios=ratios, lower_factor=1.0 if which != "both" else 0.7))
    # make1dGrid: theories/Model_Grid1d.v (PrimFloat instance) against the real method on given face values: monotone either way, with a plateau,
    # with one reversal, nearly equal neighbours (the centre rounds onto a face)
    g1 = []
    for k in range(60 if chk.tier == "quick" else 600):
        nf = rng.choice([2, 3, 5, 9, 17])
        step = [rng.uniform(0.01, 1.0) for _ in range(nf - 1)]
        kind = k % 6
        if kind == 1:
            step[rng.randrange(nf - 1)] = 0.0
        elif kind == 2:
            step[rng.randrange(nf - 1)] *= -1.0
        elif kind == 3:
            step[rng.randrange(nf - 1)] = 1e-16
        fv = [rng.uniform(-2, 2)]
        for d_ in step:
            fv.append(fv[-1] + d_)
        if kind == 4 or rng.random() < 0.4:
            fv = [-x for x in fv]
        g1.append([float(x).hex() for x in fv])
    rc, res, o, e = common.run_impl_json("impl/radial.py", dict(funcs=cases, eqs=eq_reqs, sweeps=sweep_reqs, grid1d=g1), timeout=900)
    if res is None:
        chk.tie_broken("impl/radial.py", f"implementation run failed rc={rc}: {(o + e)[-1500:]}")
        return
    fl = lambda xs: "[" + "; ".join(common.fhex(float.fromhex(x)) for x in xs) + "]"
    items, nref = [], 0
    for fv, r in zip(g1, res.get("grid1d", [])):
        if "grid" in r:
            gv = [float.fromhex(x) for x in r["grid"]]
            dd = [b - a for a, b in zip(gv[:-1], gv[1:])]
            if gv[::2] != [float.fromhex(x) for x in fv] or not (all(x > 0 for x in dd) or all(x < 0 for x in dd)):
                chk.fail("make1dGrid:accepted-bad-grid", "make1dGrid returned a grid whose even entries are not the face values or which is not strictly monotone", {"faces": fv, "grid": r["grid"]})
            items.append(f"(match make_1d_grid Fops {fl(fv)} with Some g => leq g {fl(r['grid'])} | None => false end)")
        else:
            nref += 1
            items.append(f"(match make_1d_grid Fops {fl(fv)} with Some _ => false | None => true end)")
    text = ("From Coq Require Import ZArith List Bool PrimFloat.\nFrom HT Require Import Field Model_Grid1d.\nImport ListNotations.\nLocal Open Scope float_scope.\n"
            "Fixpoint leq (a b : list float) : bool := match a, b with [], [] => true | x :: s, y :: t => PrimFloat.eqb x y && leq s t | _, _ => false end.\n"
            "Definition rs : list bool := [\n" + ";\n".join(items) + "].\nEval vm_compute in (length (filter (fun b => b) rs), length rs).\n")
    rcq, oq, eq_ = common.coq_eval("cases_C09_grid1d", text)
    mm = re.search(r"\((\d+)(?:%nat)?,\s*(\d+)(?:%nat)?\)", oq.replace("\n", " "))
    if rcq != 0 or not mm or mm.group(1) != mm.group(2) or len(items) != len(g1):
        chk.tie_broken("model:make1dGrid", f"model (PrimFloat) and the real make1dGrid disagree: {(oq + eq_)[-400:]}")
    chk.notes["make1dGrid_correspondence"] = {"cases": len(g1), "refused": nref, "agree": int(mm.group(1)) if mm else 0}
    nsw = 0
    worst_sw = {}
    for q, r in zip(sweep_reqs, res.get("sweeps", [])):
        rows = r["rows"]
        rng_psi = abs(q["upper"] - q["lower"])
        for k in range(1, len(rows) - 1):
            a, b, c3 = rows[k - 1], rows[k], rows[k + 1]
            if a is None or b is None or c3 is None:
                continue
            # a smooth dependence has second differences O(delta^2); a jump of the function at some ratio shows up at full size
            sd = float(np.max(np.abs(np.array(a) - 2 * np.array(b) + np.array(c3)))) / rng_psi
            nsw += 1
            key = f"{q['which']}"
            worst_sw[key] = max(worst_sw.get(key, 0.0), sd)
            if sd > 2e-3:
                chk.fail(f"discontinuous-in-parameters:{q['which']}", "the radial spacing function jumps when its end-gradient parameter varies continuously (it must vary continuously with its parameters, also across the switch between its closed forms)",
                         dict(which_gradient=q["which"], n=q["n"], lower=q["lower"], upper=q["upper"], ratio_before=q["ratios"][k - 1], ratio_at=q["ratios"][k], ratio_after=q["ratios"][k + 1],
                              jump_as_fraction_of_psi_range=sd))
                break
        if r["errors"] > len(rows) // 3:
            chk.fail(f"refused:sweep:{q['which']}", "getSmoothMonotonicGridFunc refuses more than a third of a sweep of legal end-gradient ratios", dict(n=q["n"], lower=q["lower"], upper=q["upper"], errors=r["errors"], of=len(rows)))
    chk.notes["parameter_continuity_worst_second_difference"] = worst_sw
    nval = nprop = 0
    worst_grad = [0.0]
    dist = {}
    for c, r in zip(cases, res["funcs"]):
        br = branch_of(c)
        dist[br] = dist.get(br, 0) + 1
        n, lo, up = c["n"], c["lower"], c["upper"]
        D = up - lo
        legal = (c["gl"] is None or D * c["gl"] >= 0) and (c["gu"] is None or D * c["gu"] >= 0)
        where = {"case": c, "branch": br}
        if "error" in r:
            # an explicit refusal is not a violation of C09 (a loud error is C12's "valid grid or explicit error"); isolated refusals (brentq cannot bracket the
            # root for end-gradient ratios within 1e-5 of the switch) are counted, a systematic refusal is caught by the sweep above
            if legal:
                chk.notes.setdefault("refused_legal_parameters", []).append({"branch": br, "case": c, "error": r["error"][:120]})
            continue
        xs, fs = np.array(r["x"]), np.array(r["f"])
        scale = max(abs(lo), abs(up), abs(D))
        # ---- translation validation (same IR evaluated in Python) for the modelled branches
        if out is not None and br != "both_sici":
            env = {"n": float(n), "lower": lo, "upper": up, "grad_lower": c["gl"], "grad_upper": c["gu"], "i": xs}
            if br.endswith("erf"):
                env["a"] = r["closure"].get("a")
            if not (br.endswith("erf") and env["a"] is None):
                model = np.broadcast_to(tr.py_eval(out[br], env), xs.shape)
                nval += len(xs)
                if np.max(np.abs(model - fs)) > 1e-11 * max(1.0, scale):
                    chk.tie_broken(f"translation-validation:{br}", {"case": c, "max_abs_diff": float(np.max(np.abs(model - fs)))})
                g = out.get(br + "_guard")
                if g is not None:
                    a, b = tr.py_eval(g[1], env), tr.py_eval(g[2], env)
                    if not (a < b):
                        chk.tie_broken(f"translation-validation:{br}_guard", {"case": c, "note": "implementation took this branch but the translated guard is false"})
        # ---- the property on the real function
        nprop += 1
        # closed forms are exact at both ends; in the erf / sici branches ONE end is reached through the constraint handed to brentq (rtol = 1e-10 on its
        # parameter): the end opposite to the given gradient (lower_erf: i = n; upper_erf: i = 0; both_sici: i = n)
        tol0 = 2e-9 if br == "upper_erf" else 1e-12
        toln = 2e-9 if br in ("lower_erf", "both_sici") else 1e-12
        if abs(fs[0] - lo) > tol0 * max(1, scale) or abs(fs[-1] - up) > toln * max(1, scale):
            chk.fail(f"end-values:{br}", "spacing function does not start/end at the requested boundary values", dict(where, f0=float(fs[0]), fn=float(fs[-1])))
        d = np.diff(fs) * np.sign(D)
        dface = np.diff(fs[::2]) * np.sign(D)      # the code evaluates the function at the integer faces only
        if not (np.all(dface > 0) and np.all(d >= 0)):
            saturated = br.endswith("erf") and np.all(d >= 0) and "grid_error" in r
            if saturated:
                # exp(-i^2/a) underflows for extreme end-gradient ratios: binary64 plateaus, which make1dGrid refuses loudly
                chk.notes["erf_saturation_refused"] = chk.notes.get("erf_saturation_refused", 0) + 1
            else:
                chk.fail(f"monotone:{br}", "spacing function is not strictly monotone on [0, n] (faces and mid-points) for legal parameters", dict(where, values=fs.tolist()[:12], make1dGrid=r.get("grid_error", "returned a grid")))
        h = 1e-4
        for end, key, gkey in (("lower", "d_lo", "gl"), ("upper", "d_hi", "gu")):
            if c[gkey] is None:
                continue
            y = r[key]
            d1 = (-3 * y[0] + 4 * y[1] - y[2]) / (2 * h) if end == "lower" else (3 * y[2] - 4 * y[1] + y[0]) / (2 * h)
            d2 = (y[0] - 2 * y[1] + y[2]) / h ** 2
            tol = 2e-4 * max(abs(c[gkey]), abs(D) / n) if br != "both_sici" else 5e-3 * max(abs(c[gkey]), abs(D) / n)
            if abs(d1 - c[gkey]) > tol:
                chk.fail(f"end-gradient:{br}:{end}", f"gradient at the {end} end differs from the prescribed one", dict(where, measured=d1, prescribed=c[gkey]))
            if abs(d2) > 0.05 * max(abs(c[gkey]), abs(D) / n) and br in ("lower_cubic", "upper_cubic", "both_trig"):
                chk.fail(f"end-curvature:{br}:{end}", f"second derivative at the {end} end is not ~0", dict(where, measured=d2))
        if "f2" in r and br != "both_sici" and not br.endswith("erf"):
            if np.max(np.abs(np.array(r["f2"]) - fs[::2])) > 1e-11 * max(1, scale):
                chk.fail(f"nesting:{br}", "doubling n does not keep the original faces", where)
        if "grid" in r:
            gr = np.array(r["grid"])
            if not (np.array_equal(gr[::2], fs[::2]) and np.allclose(gr[1::2], 0.5 * (gr[:-1:2] + gr[2::2]), rtol=0, atol=0)):
                chk.fail("make1dGrid", "faces are not at even positions / centres are not the mid-points", where)
    # ---- real equilibria: psi_vals of every region of every topology
    neq = 0
    for q, d in zip(eq_reqs, res["eqs"]):
        where = {"family": q["family"], "sign": q["sign"], "options": q["options"]}
        if "error" in d:
            chk.notes.setdefault("equilibria_refused", []).append({"where": where, "error": d["error"][:160]})
            continue
        neq += 1
        limits = {"core": d["psi_core"], "sol": d["psi_sol"], "sol_inner": d["psi_sol_inner"], "pf_lower": d["psi_pf_lower"], "pf_upper": d["psi_pf_upper"]}
        # the limits the options ask for, resolved here (psi_x given: that value; else psi_axis + psinorm_x * (psi_sep[0] - psi_axis); psinorm_sol_inner
        # defaults to psinorm_sol, psinorm_pf_lower / _upper to psinorm_pf)
        o_ = q["options"]
        nrm = lambda v: d["psi_axis"] + v * (d["psi_sep"][0] - d["psi_axis"])
        asked = {"core": o_["psi_core"] if o_.get("psi_core") is not None else nrm(o_["psinorm_core"]),
                 "sol": o_["psi_sol"] if o_.get("psi_sol") is not None else nrm(o_["psinorm_sol"]),
                 "sol_inner": o_["psi_sol_inner"] if o_.get("psi_sol_inner") is not None else nrm(o_.get("psinorm_sol_inner", o_["psinorm_sol"])),
                 "pf_lower": o_["psi_pf_lower"] if o_.get("psi_pf_lower") is not None else nrm(o_.get("psinorm_pf_lower", o_["psinorm_pf"])),
                 "pf_upper": o_["psi_pf_upper"] if o_.get("psi_pf_upper") is not None else nrm(o_.get("psinorm_pf_upper", o_["psinorm_pf"]))}
        for k_, v_ in asked.items():
            if abs(limits[k_] - v_) > 1e-12 * max(1.0, abs(v_)):
                chk.fail(f"limits:option-resolution:{k_}", f"the radial limit psi_{k_} the equilibrium uses is not the one the options ask for",
                         dict(where, used=limits[k_], asked=v_))
        for name, r in d["regions"].items():
            pv = [np.array(p) for p in r["psi_vals"]]
            allv = np.concatenate([pv[0]] + [p[1:] for p in pv[1:]])
            dd = np.diff(allv)
            if not (np.all(dd > 0) or np.all(dd < 0)):
                chk.fail("region:not-monotone", f"radial psi values of region {name} are not strictly monotone across its segments", dict(where, region=name, psi_vals=[p.tolist() for p in pv]))
            for k in range(len(pv) - 1):
                # exact at an anchored end; the far end of the two-gradient branches is only accurate to rounding (sin(pi) != 0)
                if abs(pv[k][-1] - pv[k + 1][0]) > 1e-12 * max(1.0, abs(pv[k][-1])):
                    chk.fail("region:segments-do-not-share-boundary", f"adjoining radial segments {k},{k+1} of region {name} do not share their boundary value", dict(where, region=name, end=float(pv[k][-1]), start=float(pv[k + 1][0])))
            first, last = pv[0][0], pv[-1][-1]
            want_first = limits["core"] if "core" in name else (limits["pf_lower"] if "lower" in name else limits["pf_upper"])
            want_last = limits["sol_inner"] if name.startswith("inner") and "cdn" in q["family"] + "dn" and len(d["psi_sep"]) > 1 else limits["sol"]
            if abs(first - want_first) > 1e-12 * max(1, abs(want_first)):
                chk.fail("region:inner-limit", f"region {name} does not start at the requested inner psi limit", dict(where, region=name, got=float(first), want=want_first))
            if abs(last - want_last) > 2e-9 * max(1, abs(want_last)) and abs(last - limits["sol"]) > 2e-9 and abs(last - limits["sol_inner"]) > 2e-9:
                chk.fail("region:outer-limit", f"region {name} does not end at the requested SOL psi limit", dict(where, region=name, got=float(last)))
            # separatrix values are grid faces; same spacing on both sides of each separatrix
            for k in range(len(pv) - 1):
                sepv = pv[k][-1]
                pf_split = "divertor" in name and len(pv) == 3 and k == 0 and len(d["psi_sep"]) == 2
                if min(abs(sepv - s) for s in d["psi_sep"]) > 1e-12 * max(1, abs(sepv)) and not pf_split:
                    chk.fail("region:separatrix-not-a-face", f"segment boundary of region {name} is not a separatrix value", dict(where, region=name, value=float(sepv), psi_sep=d["psi_sep"]))
                # the same gradient d(psi)/d(index) on both sides of the separatrix: one-sided second-order differences of the FACE values (the spacing functions
                # have vanishing second derivative there, so these are accurate to the third derivative)
                fa, fb = pv[k][::2], pv[k + 1][::2]
                if q.get("fine") and len(fa) >= 3 and len(fb) >= 3 and not pf_split:
                    # f(i) = f0 + g i + c i^3 + ... near the separatrix (no quadratic term): g = (8 (f1 - f0) - (f2 - f0)) / 6 eliminates the cubic term
                    ga = -(8 * (fa[-2] - fa[-1]) - (fa[-3] - fa[-1])) / 6.0
                    gb = (8 * (fb[1] - fb[0]) - (fb[2] - fb[0])) / 6.0
                    rel = abs(ga - gb) / max(abs(ga), abs(gb))
                    worst_grad[0] = max(worst_grad[0], rel)
                    if rel > 0.05:
                        chk.fail("region:gradient-jump-at-separatrix", f"the radial spacing d(psi)/d(index) of region {name} differs between the two sides of a separatrix",
                                 dict(where, region=name, segments=[k, k + 1], gradient_inside=float(ga), gradient_outside=float(gb), relative_difference=float(rel)))
    # ---- corpus grids: dx is the psi difference between the x-faces
    ng = 0
    for g in corpus.get(tier=chk.tier):
        if not g.ok:
            continue
        ng += 1
        for rid, r in g.d["regions"].items():
            pv = r["psi_vals"]
            dx = r["arrays"]["dx"]["centre"]
            if not np.array_equal(dx, np.broadcast_to((pv[2::2] - pv[:-2:2])[:, None], dx.shape)):
                chk.fail("dx", "dx is not the psi difference between the x-faces of the cell", {"grid": g.name, "region": r["name"]})
            px = r["interp"]["xlow"]["psi"]
            if np.max(np.abs(px - pv[0::2][:, None])) > 1e-6 * max(1.0, np.max(np.abs(pv))):
                chk.fail("psixy_xlow", "psi at the x-faces differs from the radial psi grid", {"grid": g.name, "region": r["name"], "max_diff": float(np.max(np.abs(px - pv[0::2][:, None])))})
    chk.count(evaluations=nprop + neq + ng, distinct=nprop + neq + ng)
    chk.cov["rule"] = "random (n, boundary values of both orderings, end-gradient ratios 0.05..20 incl. the switch points) per branch; real equilibria of every topology incl. a perturbed connected double null, multipliers 0.05..20; corpus grids"
    chk.cov["programs"] = 6
    chk.cov["disagreements_checked"] = nval
    chk.notes["worst_relative_gradient_difference_across_a_separatrix"] = worst_grad[0]
    chk.notes["correspondence"] = {"function_cases": nprop, "branch_distribution": dist, "translation_values_compared": nval, "equilibria": neq, "grids": ng}
    chk.sample({"case": cases[0], "branch": branch_of(cases[0])})
    chk.sample({"equilibrium": eq_reqs[0]})
