"""Corpus of equilibria / grids shared by the whole-grid checks.  Grids are built by the REAL code
(harness/impl/grid.py, own process group) and cached under _cache/<treehash>-<builderhash>/<name>/."""
import hashlib
import json
import os
import pickle
import shutil
import time
from concurrent.futures import ThreadPoolExecutor

import common

SN = dict(psinorm_core=0.8, psinorm_sol=1.2, psinorm_pf=0.9, ny_inner_divertor=4, ny_sol=8, ny_outer_divertor=4,
          nx_core=4, nx_sol=4, psi_spacing_separatrix_multiplier=0.5, target_all_poloidal_spacing_length=0.3,
          xpoint_poloidal_spacing_length=0.05, y_boundary_guards=2, number_of_processors=1, finecontour_Nfine=100, refine_timeout=60.0)
DN = dict(psinorm_core=0.8, psinorm_sol=1.2, psinorm_pf=0.9, ny_inner_lower_divertor=4, ny_inner_upper_divertor=4,
          ny_inner_sol=4, ny_outer_sol=4, ny_outer_lower_divertor=4, ny_outer_upper_divertor=4, nx_core=4, nx_inter_sep=1,
          nx_sol=4, psi_spacing_separatrix_multiplier=0.5, target_all_poloidal_spacing_length=0.3,
          xpoint_poloidal_spacing_length=0.05, y_boundary_guards=2, number_of_processors=1, finecontour_Nfine=100, refine_timeout=60.0)
CDN = {k: v for k, v in DN.items() if k != "nx_inter_sep"}
NONORTH = dict(orthogonal=False, y_boundary_guards=0)


def nonorth(base):
    b = {k: v for k, v in base.items() if k not in ("target_all_poloidal_spacing_length", "xpoint_poloidal_spacing_length")}
    b.update(NONORTH)
    return b



def tok(name, family, base, sign=1.0, **kw):
    opts = dict(base)
    opts.update(kw.pop("options", {}))
    cfg = dict(name=name, kind="tokamak", family=family, sign=sign, options=opts)
    cfg.update(kw)
    return cfg


CONFIGS = {}


def add(cfg, tiers=("thorough",)):
    cfg["tiers"] = list(tiers)
    CONFIGS[cfg["name"]] = cfg


Q = ("quick", "thorough")
# psi decreasing outwards (bpsign = -1): the shipped examples
add(tok("lsn", "lsn", SN), Q)
add(tok("cdn", "cdn", CDN, options=dict(ny_outer_lower_divertor=10)), Q)
# psi increasing outwards (bpsign = +1)
add(tok("lsn_neg", "lsn", SN, sign=-1.0), Q)
# non-orthogonal
add(tok("lsn_nonorth", "lsn", nonorth(SN)), Q)
add(tok("lsn_neg_nonorth", "lsn", nonorth(SN), sign=-1.0), Q)
add(dict(name="circ", kind="circular", options=dict(number_of_processors=1, nx_core=4, ny_total=8)), Q)
# thorough-only members
add(tok("usn", "usn", SN, options=dict(ny_inner_divertor=3, ny_sol=8, ny_outer_divertor=5, target_outer_upper_poloidal_spacing_length=0.2, target_inner_upper_poloidal_spacing_length=0.4)), Q)
add(tok("udn", "udn", DN), Q)
add(tok("ldn", "ldn", DN))
add(tok("udn2", "udn2", DN))
add(tok("cdn_neg", "cdn", CDN, sign=-1.0), Q)
add(tok("lsn_unequal", "lsn", SN, options=dict(ny_inner_divertor=3, ny_sol=10, ny_outer_divertor=6, nx_core=3, nx_sol=5, y_boundary_guards=1)))
add(tok("lsn_g0", "lsn", SN, options=dict(y_boundary_guards=0)))
add(tok("lsn_dct", "lsn", SN, options=dict(psi_interpolation_method="dct")))
add(tok("lsn_slant", "lsn", SN, wall="slant"), Q)
add(tok("lsn_nonorth_slant", "lsn", nonorth(SN), wall="slant", options=dict(y_boundary_guards=1)), Q)
add(tok("lsn_poly_acw", "lsn", SN, wall="poly", wall_anticlockwise=True))
add(tok("usn_nonorth", "usn", nonorth(SN)))
add(tok("cdn_nonorth", "cdn", nonorth(CDN)))
add(tok("lsn_revBt", "lsn", SN, fpol_sign=-1.0))
add(tok("lsn_fine", "lsn", SN, options=dict(finecontour_Nfine=200)))
add(tok("lsn_upper_outer", "lsn", SN, options=dict(start_at_upper_outer=True)))
add(tok("udn_uo", "udn", DN, options=dict(start_at_upper_outer=True)))
add(tok("cdn_uo", "cdn", CDN, options=dict(start_at_upper_outer=True)))
add(tok("lsn_xy", "lsn", SN, options=dict(curvature_type="curl(b/B) with x-y derivatives")), Q)
add(tok("lsn_neg_xy", "lsn", SN, sign=-1.0, options=dict(curvature_type="curl(b/B) with x-y derivatives")), Q)
# unusual inputs that particular defects need
add(tok("lsn_nonorth_np2", "lsn", nonorth(SN), options=dict(number_of_processors=2)), Q)
add(tok("lsn_psi0", "lsn", SN, psi_offset=-0.764, options=dict(psi_pf_lower=0.0)), Q)
# profile / sign options (C03, C16)
add(tok("lsn_rev3", "lsn", SN, options=dict(reverse_current=True, reverse_Bt=True, psi_divide_twopi=True)), Q)
add(tok("lsn_extrap", "lsn", SN, profile_grid="sep", psi_sol_norm=1.2, options=dict(extrapolate_profiles=True)), Q)
add(tok("udn_neg", "udn", DN, sign=-1.0))
add(tok("lsn_ny2", "lsn", SN, options=dict(ny_inner_divertor=8, ny_sol=16, ny_outer_divertor=8)), Q)
# mirror / reversal partners (C16)
add(tok("lsn_35", "lsn", SN, options=dict(ny_inner_divertor=3, ny_sol=8, ny_outer_divertor=5, target_outer_lower_poloidal_spacing_length=0.2, target_inner_lower_poloidal_spacing_length=0.4)), Q)
add(tok("udn_m", "udn_m", DN, mirror=True), Q)
add(tok("cdn_sym", "cdn", CDN), Q)
add(tok("lsn_direct3", "lsn", SN, sign=-1.0, scale=0.15915494309189535, fpol_sign=-1.0), Q)
add(tok("lsn_revBt_opt", "lsn", SN, options=dict(reverse_Bt=True)))
DNSZ = dict(target_outer_lower_poloidal_spacing_length=0.2, target_inner_upper_poloidal_spacing_length=0.4, ny_inner_lower_divertor=3, ny_inner_upper_divertor=5, ny_outer_lower_divertor=6, ny_outer_upper_divertor=4, ny_inner_sol=5, ny_outer_sol=6)
DNSZ_M = dict(target_outer_upper_poloidal_spacing_length=0.2, target_inner_lower_poloidal_spacing_length=0.4, ny_inner_lower_divertor=5, ny_inner_upper_divertor=3, ny_outer_lower_divertor=4, ny_outer_upper_divertor=6, ny_inner_sol=5, ny_outer_sol=6)
# (udn with unequal leg sizes / per-leg spacings -- DNSZ -- is NOT a corpus member: FineContour.refine does not terminate for these settings on the pinned tree;
#  with the default refine_timeout of 10 s the user gets func_timeout's FunctionTimedOut, an explicit error)
add(tok("udn2_m", "udn2_m", DN, mirror=True))
# regridding histories (C15, C03): the final settings of *_regrid equal the settings of *_fresh
RG1 = dict(nonorthogonal_target_all_poloidal_spacing_length=0.5, nonorthogonal_xpoint_poloidal_spacing_length=0.03, nonorthogonal_target_all_poloidal_spacing_range=0.05)
RG2 = dict(nonorthogonal_xpoint_poloidal_spacing_range=0.01, nonorthogonal_target_all_poloidal_spacing_range_outer=0.3)
add(tok("lsn_nonorth_regrid", "lsn", nonorth(SN), regrid=[dict(geometry_before=True, settings=RG1)]), Q)
add(tok("lsn_nonorth_fresh", "lsn", nonorth(SN), options=RG1), Q)
add(tok("lsn_nonorth_regrid2", "lsn", nonorth(SN), regrid=[dict(geometry_before=False, settings=RG2), dict(geometry_before=True, settings=RG1)]))
add(tok("lsn_nonorth_regrid_back", "lsn", nonorth(SN), regrid=[dict(geometry_before=True, settings=RG1), dict(geometry_before=True, settings={})]))
add(tok("cdn_nonorth_regrid", "cdn", nonorth(CDN), regrid=[dict(geometry_before=True, settings=RG1)]))
add(tok("cdn_nonorth_fresh", "cdn", nonorth(CDN), options=RG1))
add(dict(name="circ_big", kind="circular", options=dict(number_of_processors=1, nx_core=6, ny_total=16, q_coefficients=[1.5, 2.0])))


def steep_cfg(mirrored=False):
    """a non-orthogonal single null whose outer target is so oblique to the flux surfaces (and so finely spaced) that contours must be EXTENDED to reach the wall;
    mirrored: the upper single null that is its mirror image (Z -> -Z)"""
    o = dict(orthogonal=False, number_of_processors=1, psinorm_core=0.8, psinorm_sol=1.2, psinorm_pf=0.9, ny_inner_divertor=4, ny_sol=12, ny_outer_divertor=8, nx_core=2, nx_sol=2,
             psi_spacing_separatrix_multiplier=0.5, target_all_poloidal_spacing_length=0.3, xpoint_poloidal_spacing_length=0.05, finecontour_Nfine=200, y_boundary_guards=1)
    if mirrored:
        o["target_outer_upper_poloidal_spacing_length"] = 0.03
        return tok("usn_nonorth_steep", "usn", o, wall="steep", mirror=True, must_build=True)
    o["target_outer_lower_poloidal_spacing_length"] = 0.03
    return tok("lsn_nonorth_steep", "lsn", o, wall="steep", must_build=True)


def steep_cdn_cfg():
    """an up-down symmetric connected double null, non-orthogonal, in a wall whose floor AND ceiling are steeply inclined: the outer lower leg ENDS on the wall, its mirror
    image (the outer upper leg) STARTS on it, and contours have to be extended to reach the wall at both"""
    o = dict(orthogonal=False, number_of_processors=1, psinorm_core=0.8, psinorm_sol=1.2, psinorm_pf=0.9, ny_inner_lower_divertor=4, ny_inner_upper_divertor=4, ny_inner_sol=6,
             ny_outer_sol=6, ny_outer_lower_divertor=8, ny_outer_upper_divertor=8, nx_core=2, nx_sol=2, psi_spacing_separatrix_multiplier=0.5, target_all_poloidal_spacing_length=0.3,
             target_outer_lower_poloidal_spacing_length=0.03, target_outer_upper_poloidal_spacing_length=0.03, xpoint_poloidal_spacing_length=0.05, finecontour_Nfine=200,
             y_boundary_guards=1, refine_timeout=60.0)
    return tok("cdn_nonorth_steep", "cdn", o, wall="steep2", must_build=True)


def builder_hash():
    h = hashlib.sha256()
    for f in ("impl/grid.py", "analytic.py", "crit.py"):
        with open(os.path.join(common.VERIF, "harness", f), "rb") as fh:
            h.update(fh.read())
    return h.hexdigest()[:8]


def cache_root():
    return os.path.join(common.CACHE, f"{common.tree_hash()}-{builder_hash()}")


def prune_cache(keep):
    if not os.path.isdir(common.CACHE):
        return
    ents = sorted((os.path.getmtime(os.path.join(common.CACHE, d)), d) for d in os.listdir(common.CACHE))
    for _, d in ents[:-3]:
        if os.path.join(common.CACHE, d) != keep:
            shutil.rmtree(os.path.join(common.CACHE, d), ignore_errors=True)


def build_one(cfg, root, timeout=1500):
    out = os.path.join(root, cfg["name"] + "-" + hashlib.sha1(json.dumps(cfg, sort_keys=True).encode()).hexdigest()[:8])
    if os.path.exists(os.path.join(out, "dump.pkl")) or os.path.exists(os.path.join(out, "error.txt")):
        return out
    os.makedirs(out, exist_ok=True)
    cfgfile = os.path.join(out, "config.json")
    with open(cfgfile, "w") as f:
        json.dump(cfg, f)
    rc, o, e = common.run_impl("impl/grid.py", (cfgfile, out), timeout=timeout)
    with open(os.path.join(out, "log.txt"), "w") as f:
        f.write(o[-20000:] + "\n=====\n" + e[-20000:])
    if rc is None and not os.path.exists(os.path.join(out, "dump.pkl")):
        with open(os.path.join(out, "error.txt"), "w") as f:
            f.write(f"TIMEOUT after {timeout}s (generation did not finish; the property demands an exception or a grid)\n")
    elif rc != 0 and not os.path.exists(os.path.join(out, "error.txt")) and not os.path.exists(os.path.join(out, "dump.pkl")):
        with open(os.path.join(out, "error.txt"), "w") as f:
            f.write(f"rc={rc}\n" + e[-5000:])
    return out


class Grid:
    def __init__(self, cfg, path):
        self.cfg, self.path, self.name = cfg, path, cfg["name"]
        self.error = None
        p = os.path.join(path, "dump.pkl")
        if os.path.exists(p):
            with open(p, "rb") as f:
                self.d = pickle.load(f)
        else:
            self.d = None
            try:
                self.error = open(os.path.join(path, "error.txt")).read()
            except OSError:
                self.error = "no output"

    @property
    def ok(self):
        return self.d is not None


def get(names=None, tier="quick", extra_cfgs=()):
    """Build (or load from cache) the named grids in parallel; returns list of Grid."""
    root = cache_root()
    os.makedirs(root, exist_ok=True)
    prune_cache(root)
    cfgs = [c for c in CONFIGS.values() if (names is None and tier in c["tiers"]) or (names is not None and c["name"] in names)]
    cfgs += list(extra_cfgs)
    t0 = time.time()
    with ThreadPoolExecutor(max_workers=min(common.NPROC, 12)) as ex:
        paths = list(ex.map(lambda c: build_one(c, root), cfgs))
    grids = [Grid(c, p) for c, p in zip(cfgs, paths)]
    # every named corpus member generates on the pinned tree: one that no longer does leaves the property unchecked there, which
    # Check.finish reports as a broken tie (never silently skipped)
    for g in grids:
        if not g.ok and (g.cfg["name"] in CONFIGS or g.cfg.get("must_build")):
            FAILED[g.cfg["name"]] = (g.error or "").strip().splitlines()[-1][:300] if (g.error or "").strip() else "no output"
    return grids


FAILED = {}


if __name__ == "__main__":
    import sys
    tier = sys.argv[1] if len(sys.argv) > 1 else "quick"
    t0 = time.time()
    gs = get(tier=tier)
    for g in gs:
        print(g.name, "OK" if g.ok else "FAILED: " + g.error.strip().splitlines()[-1][:200], round(g.d["total_s"], 1) if g.ok else "")
    print("wall", round(time.time() - t0, 1))
